"""Canonical form and comparators for BlackbirdProgram contents."""
import math
import numbers

import numpy as np
import sympy as sym

from . import valuecmp as VC
from .valuecmp import Mismatch, IllConditioned
from .model import refsem as R
from .model import numeric as N
from .model.numeric import V


def _is_rrt(x):
    return type(x).__name__ == "RegRefTransform" and hasattr(x, "regrefs") and hasattr(x, "func")


# ------------------------------------------------------------------ snapshots (exact, hash-seed independent)

_PTS = [0.7310585786300049, 1.3591409142295225, -0.4142135623730951, 2.2360679774997898, 0.5671432904097838,
        -1.6180339887498949, 3.3019272488946263, 0.2078795763507619, 1.2020569031595942, 0.9159655941772190,
        1.7724538509055159, -0.6931471805599453]


EXACT_TRANSFORMS = False     # C19's children set it: function values of a transform are compared bit for bit


def _r12(x):
    try:
        c = complex(x)
    except Exception:
        return repr(x)
    if c != c:
        return "nan"
    return "%.11e%+.11ej" % (c.real, c.imag)


def snap_value(v):
    if isinstance(v, (bool, np.bool_)):
        return ["bool", bool(v)]
    if isinstance(v, str):
        return ["str", v]
    if isinstance(v, numbers.Integral):
        return ["int", type(v).__name__ if not isinstance(v, int) else "int", int(v)]
    if isinstance(v, numbers.Real):
        return ["real", float(v).hex()]
    if isinstance(v, numbers.Complex):
        c = complex(v)
        return ["complex", c.real.hex(), c.imag.hex()]
    if isinstance(v, np.ndarray):
        return ["array", str(v.dtype), list(v.shape), [snap_value(x) for x in v.flatten().tolist()] if v.dtype != object
                else [snap_value(x) for x in v.flatten()]]
    if isinstance(v, (list, tuple)):
        return ["list", [snap_value(x) for x in v]]
    if isinstance(v, dict):
        return ["dict", [[k, snap_value(x)] for k, x in v.items()]]
    if _is_rrt(v):
        order = sorted(range(len(v.regrefs)), key=lambda i: v.regrefs[i])
        regs = [v.regrefs[i] for i in order]
        vals = []
        for shift in (0, 3):
            args = [None] * len(regs)
            for rank, i in enumerate(order):
                args[i] = _PTS[(rank + shift) % len(_PTS)]
            try:
                r_ = v.func(*args)
                vals.append(_r12(r_))
                if EXACT_TRANSFORMS:
                    c_ = complex(r_)
                    vals.append([c_.real.hex(), c_.imag.hex()])
            except ZeroDivisionError:
                vals.append("pole")
            except Exception as e:      # a transform whose parts no longer fit together (edited object)
                vals.append("error:" + type(e).__name__)
        return ["transform", regs, vals, str(getattr(v, "func_str", None))]
    if isinstance(v, sym.Expr):
        syms = sorted(v.free_symbols, key=str)
        vals = []
        for shift in (0, 5):
            subs = {s: _PTS[(i + shift) % len(_PTS)] for i, s in enumerate(syms)}
            try:
                vals.append(_r12(complex(v.evalf(20, subs=subs))))
            except Exception as e:
                vals.append("err:" + type(e).__name__)
        return ["sympy", [str(s) for s in syms], vals]
    if v is None:
        return ["none"]
    return ["other", type(v).__name__, repr(v)]


def snap_op(op):
    d = {"op": op.get("op"), "modes": snap_value(list(op.get("modes", [])))}
    if "args" in op:
        d["args"] = [snap_value(a) for a in op["args"]]
    if "kwargs" in op:
        d["kwargs"] = [[k, snap_value(v)] for k, v in op["kwargs"].items()]
    extra = sorted(set(op) - {"op", "modes", "args", "kwargs"})
    if extra:
        d["extra_keys"] = extra
    return d


def snapshot(p, variables=True):
    d = {
        "name": p.name,
        "version": p.version,
        "target": [p.target.get("name"), snap_value(dict(p.target.get("options") or {}))],
        "type": [p.programtype.get("name"), snap_value(dict(p.programtype.get("options") or {}))],
        "parameters": sorted(p.parameters),
        "modes": sorted(int(m) for m in p.modes),
        "ops": [snap_op(o) for o in p.operations],
        "len": len(p),
        "is_template": bool(p.is_template()),
    }
    if variables:
        d["variables"] = [[k, snap_value(v)] for k, v in p.variables.items()]
    return d


# ------------------------------------------------------------------ program vs program (round trips)

def _num_kind(x):
    if isinstance(x, (bool, np.bool_)):
        return "bool"
    if isinstance(x, numbers.Integral):
        return "int"
    if isinstance(x, numbers.Real):
        return "real"
    if isinstance(x, numbers.Complex):
        return "complex"
    return None


ZERO_SIGN = [False]


class strict_zero_sign:
    """Within this block real floats (scalars, list elements, float arrays) must also agree in the sign of a zero:
    -0.0 and 0.0 are different numbers for "come back exactly" (complex parts are exempt)."""
    def __enter__(self):
        self.old = ZERO_SIGN[0]
        ZERO_SIGN[0] = True

    def __exit__(self, *a):
        ZERO_SIGN[0] = self.old


def values_equal(a, b, path, out, sym_rtol=1e-9):
    """Append Mismatch objects to out for differences between two delivered values."""
    ka, kb = VC.kind_of(a), VC.kind_of(b)
    if _is_rrt(a) or _is_rrt(b):
        if not (_is_rrt(a) and _is_rrt(b)):
            out.append(Mismatch("%s:transform-vs-%s" % (path, kb if _is_rrt(a) else ka), "%r vs %r" % (a, b)))
            return
        if sorted(a.regrefs) != sorted(b.regrefs):
            out.append(Mismatch("%s:transform-registers" % path, "%r vs %r" % (a.regrefs, b.regrefs)))
            return
        ok = 0
        for shift in range(3):
            vals = {r: _PTS[(i + 2 * shift) % len(_PTS)] for i, r in enumerate(sorted(a.regrefs))}
            try:
                va = complex(a.func(*[vals[r] for r in a.regrefs]))
                vb = complex(b.func(*[vals[r] for r in b.regrefs]))
            except ZeroDivisionError:
                continue
            ok += 1
            if abs(va - vb) > sym_rtol * max(abs(va), abs(vb), 1e-300):
                out.append(Mismatch("%s:transform-value" % path, "at %r: %r vs %r (%s | %s)" % (vals, va, vb, a, b)))
                return
        return
    if isinstance(a, sym.Expr) or isinstance(b, sym.Expr):
        # a SymPy constant (no free symbols) is a number: compare numerically
        ca = isinstance(a, sym.Expr) and not a.free_symbols
        cb = isinstance(b, sym.Expr) and not b.free_symbols
        if (ca or cb) and not (isinstance(a, sym.Expr) and a.free_symbols) and not (isinstance(b, sym.Expr) and b.free_symbols):
            try:
                va, vb = complex(a), complex(b)
            except Exception:
                out.append(Mismatch("%s:constant" % path, "%r vs %r" % (a, b)))
                return
            if abs(va - vb) > sym_rtol * max(abs(va), abs(vb)):
                out.append(Mismatch("%s:constant-value" % path, "%r vs %r" % (a, b)))
            return
        if not (isinstance(a, sym.Expr) and isinstance(b, sym.Expr)):
            out.append(Mismatch("%s:sympy-vs-%s" % (path, kb if isinstance(a, sym.Expr) else ka), "%r vs %r" % (a, b)))
            return
        sa, sb = sorted(map(str, a.free_symbols)), sorted(map(str, b.free_symbols))
        if sa != sb:
            out.append(Mismatch("%s:free-symbols" % path, "%r vs %r" % (sa, sb)))
            return
        for shift in range(3):
            subs = {n: _PTS[(i + 2 * shift) % len(_PTS)] for i, n in enumerate(sa)}
            try:
                va = complex(a.evalf(30, subs={s: subs[str(s)] for s in a.free_symbols}))
                vb = complex(b.evalf(30, subs={s: subs[str(s)] for s in b.free_symbols}))
            except Exception:
                continue
            if va != va or vb != vb:
                continue
            if abs(va - vb) > sym_rtol * max(abs(va), abs(vb), 1e-300):
                out.append(Mismatch("%s:sympy-value" % path, "at %r: %r vs %r (%s | %s)" % (subs, va, vb, a, b)))
                return
        return
    if isinstance(a, np.ndarray) or isinstance(b, np.ndarray):
        if not (isinstance(a, np.ndarray) and isinstance(b, np.ndarray)):
            out.append(Mismatch("%s:array-vs-%s" % (path, kb if isinstance(a, np.ndarray) else ka), "%r vs %r" % (a, b)))
            return
        if a.shape != b.shape:
            out.append(Mismatch("%s:array-shape" % path, "%r vs %r" % (a.shape, b.shape)))
            return
        ka_, kb_ = ("i" if a.dtype.kind == "u" else a.dtype.kind), ("i" if b.dtype.kind == "u" else b.dtype.kind)
        if ka_ != kb_:     # (signed and unsigned integer arrays are both "int arrays")
            out.append(Mismatch("%s:array-dtype" % path, "%r vs %r" % (a.dtype, b.dtype)))
            return
        if a.dtype == object:
            for i, (x, y) in enumerate(zip(a.flatten(), b.flatten())):
                values_equal(x, y, path + "[]", out, sym_rtol)
            return
        if not np.array_equal(a, b):
            out.append(Mismatch("%s:array-elements" % path, "%r vs %r" % (a.tolist(), b.tolist())))
        elif ZERO_SIGN[0] and a.dtype.kind == "f" and not np.array_equal(np.signbit(a), np.signbit(b)):
            out.append(Mismatch("%s:array-elements-zero-sign" % path, "%r vs %r" % (a.tolist(), b.tolist())))
        return
    if isinstance(a, (list, tuple)) or isinstance(b, (list, tuple)):
        if not (isinstance(a, (list, tuple)) and isinstance(b, (list, tuple))):
            out.append(Mismatch("%s:list-vs-%s" % (path, kb if isinstance(a, (list, tuple)) else ka), "%r vs %r" % (a, b)))
            return
        if len(a) != len(b):
            out.append(Mismatch("%s:list-length" % path, "%r vs %r" % (a, b)))
            return
        for x, y in zip(a, b):
            values_equal(x, y, path + "[]", out, sym_rtol)
        return
    if ka != kb:
        out.append(Mismatch("%s:kind-%s-vs-%s" % (path, ka, kb), "%r vs %r" % (a, b)))
        return
    try:
        same = bool(a == b)
    except Exception:
        same = False
    if not same:
        out.append(Mismatch("%s:value-%s" % (path, ka), "%r vs %r" % (a, b)))
    elif ZERO_SIGN[0] and ka == "real" and a == 0 and math.copysign(1.0, float(a)) != math.copysign(1.0, float(b)):
        out.append(Mismatch("%s:value-real-zero-sign" % path, "%r vs %r" % (a, b)))


def compare_programs(a, b, what=("name", "version", "target", "type", "parameters", "ops")):
    out = []
    if "name" in what and a.name != b.name:
        out.append(Mismatch("name", "%r vs %r" % (a.name, b.name)))
    if "version" in what and a.version != b.version:
        out.append(Mismatch("version", "%r vs %r" % (a.version, b.version)))
    for key, (x, y) in (("target", (a.target, b.target)), ("type", (a.programtype, b.programtype))):
        if key not in what:
            continue
        if x.get("name") != y.get("name"):
            out.append(Mismatch(key + "-name", "%r vs %r" % (x.get("name"), y.get("name"))))
        ox, oy = x.get("options") or {}, y.get("options") or {}
        if list(ox) != list(oy):
            out.append(Mismatch(key + "-option-keys", "%r vs %r" % (list(ox), list(oy))))
        else:
            for k in ox:
                values_equal(ox[k], oy[k], key + "-option", out)
    if "parameters" in what and set(a.parameters) != set(b.parameters):
        out.append(Mismatch("parameters", "%r vs %r" % (sorted(a.parameters), sorted(b.parameters))))
    if "ops" in what:
        oa, ob = a.operations, b.operations
        if len(oa) != len(ob):
            out.append(Mismatch("op-count", "%d vs %d" % (len(oa), len(ob))))
        for i, (x, y) in enumerate(zip(oa, ob)):
            if x["op"] != y["op"]:
                out.append(Mismatch("op-name", "op %d: %r vs %r" % (i, x["op"], y["op"])))
            mx, my = list(x["modes"]), list(y["modes"])
            if [int(m) for m in mx] != [int(m) for m in my]:
                out.append(Mismatch("op-modes", "op %d: %r vs %r" % (i, mx, my)))
            ax, ay = x.get("args"), y.get("args")
            if (ax is None) != (ay is None):
                # `Vac | 0` vs `Vac() | 0`: both denote an operation without arguments
                ax, ay = ax or [], ay or []
            if ax is not None:
                if len(ax) != len(ay):
                    out.append(Mismatch("op-args-count", "op %d: %r vs %r" % (i, ax, ay)))
                else:
                    for u, w in zip(ax, ay):
                        values_equal(u, w, "arg", out)
            kx, ky = x.get("kwargs") or {}, y.get("kwargs") or {}
            if list(kx) != list(ky):
                out.append(Mismatch("op-kwarg-keys", "op %d: %r vs %r" % (i, list(kx), list(ky))))
            else:
                for k in kx:
                    values_equal(kx[k], ky[k], "kwarg", out)
    return out


# ------------------------------------------------------------------ program vs reference program

WEAK = [0]     # number of numeric values left unchecked because the reference bound was useless
SYM_RTOL = [1e-9]   # tolerance for symbolic values (C08 tightens it: a transform's function is not printed and re-read)


def value_matches(ref, act, path, out, points=None):
    """Compare a delivered value with a reference value; appends Mismatch to out.
    Raises IllConditioned when a numeric reference cannot support the tolerance."""
    if isinstance(ref, V):
        try:
            m = VC.num_matches(ref, act)
        except IllConditioned:
            WEAK[0] += 1
            return
        if m:
            out.append(Mismatch(path + ":" + m.cls, m.msg))
        return
    if isinstance(ref, R.RStr):
        if not isinstance(act, str) or act != ref.s:
            out.append(Mismatch(path + ":str", "expected %r, got %r" % (ref.s, act)))
        return
    if isinstance(ref, R.RBool):
        if not isinstance(act, (bool, np.bool_)) or bool(act) != ref.b:
            out.append(Mismatch(path + ":bool", "expected %r, got %r" % (ref.b, act)))
        return
    if isinstance(ref, R.RPName):
        if not isinstance(act, str) or act != ref.name:
            out.append(Mismatch(path + ":p-array-name", "expected the name %r, got %r" % (ref.name, act)))
        return
    if isinstance(ref, R.RList):
        if not isinstance(act, list):
            out.append(Mismatch(path + ":list-kind", "expected a list, got %r" % (act,)))
            return
        if len(act) != len(ref.items):
            out.append(Mismatch(path + ":list-length", "expected %d items, got %r" % (len(ref.items), act)))
            return
        for r, a in zip(ref.items, act):
            value_matches(r, a, path + "[]", out)
        return
    if isinstance(ref, R.RArray):
        if not isinstance(act, np.ndarray):
            out.append(Mismatch(path + ":array-kind", "expected an array, got %r" % (act,)))
            return
        if act.ndim != 2 or act.shape != ref.shape:
            out.append(Mismatch(path + ":array-shape", "expected shape %r, got %r" % (ref.shape, act.shape)))
            return
        want_kind = {"int": "i", "float": "f", "complex": "c"}[ref.vtype]
        if ref.symbolic():
            if act.dtype != object:
                out.append(Mismatch(path + ":array-dtype", "expected object array (parameters), got %r" % act.dtype))
                return
        elif act.dtype.kind != want_kind:
            out.append(Mismatch(path + ":array-dtype", "expected %s array, got dtype %r" % (ref.vtype, act.dtype)))
            return
        for i, row in enumerate(ref.rows):
            for j, r in enumerate(row):
                el = act[i][j]
                if isinstance(r, V) and act.dtype == object:
                    # numbers stored next to parameters keep the declared element type
                    ok = {"int": isinstance(el, numbers.Integral) and not isinstance(el, (bool, np.bool_)),
                          "float": isinstance(el, numbers.Real) and not isinstance(el, numbers.Integral),
                          "complex": isinstance(el, numbers.Complex) and not isinstance(el, numbers.Real)}[ref.vtype]
                    if not ok:
                        out.append(Mismatch(path + "[r,c]:element-type", "element (%d,%d) of a %s array is %r (%s)" % (
                            i, j, ref.vtype, el, type(el).__name__)))
                        continue
                value_matches(r, el, path + "[r,c]", out)
        return
    if isinstance(ref, R.RSym):
        kinds = {k for k, _ in ref.syms}
        if "r" in kinds:
            if not _is_rrt(act):
                out.append(Mismatch(path + ":not-a-transform", "expected a register transform, got %r (%s)" % (act, type(act).__name__)))
                return
            want = sorted(n for k, n in ref.syms if k == "r")
            if sorted(act.regrefs) != want or len(act.regrefs) != len(want):
                out.append(Mismatch(path + ":transform-registers", "expected registers %r, got %r" % (want, act.regrefs)))
                return

            def fn(beta):
                return act.func(*[int(beta[("r", r)].v) if beta[("r", r)].kind == "int" else float(beta[("r", r)].v) for r in act.regrefs])
            try:
                m = VC.sym_matches(ref, fn, SYM_RTOL[0])
            except IllConditioned:
                WEAK[0] += 1        # no sample point at which the reference supports the tolerance: value left unchecked
                return
            if m:
                out.append(Mismatch(path + ":transform-" + m.cls, m.msg + " (func_str %r, regrefs %r)" % (act.func_str, act.regrefs)))
            return
        if not isinstance(act, sym.Expr):
            out.append(Mismatch(path + ":not-symbolic", "expected an expression in %r, got %r" % (sorted(ref.syms), act)))
            return
        want = sorted(n for k, n in ref.syms)
        got = sorted(str(s) for s in act.free_symbols)
        if want != got:
            out.append(Mismatch(path + ":free-symbols", "expected %r, got %r" % (want, got)))
            return
        try:
            m = VC.sym_matches(ref, lambda beta: VC.sympy_at(act, beta))
        except IllConditioned:
            WEAK[0] += 1
            return
        if m:
            out.append(Mismatch(path + ":" + m.cls, m.msg + " (expression %s)" % act))
        return
    raise TypeError("unknown reference value %r" % (ref,))


def compare_ref(p, ref, check_variables=False):
    """Compare a loaded program with its reference program (C02 shape)."""
    out = []
    if p.name != ref.name:
        out.append(Mismatch("name", "expected %r, got %r" % (ref.name, p.name)))
    if p.version != ref.version:
        out.append(Mismatch("version", "expected %r, got %r" % (ref.version, p.version)))
    for key, data, (rname, ropts) in (("target", p.target, ref.target), ("type", p.programtype, ref.ptype)):
        if data.get("name") != rname:
            out.append(Mismatch(key + "-name", "expected %r, got %r" % (rname, data.get("name"))))
        opts = data.get("options")
        if not isinstance(opts, dict):
            out.append(Mismatch(key + "-options-kind", "got %r" % (opts,)))
            continue
        if list(opts) != [k for k, _ in ropts]:
            out.append(Mismatch(key + "-option-keys", "expected %r, got %r" % ([k for k, _ in ropts], list(opts))))
            continue
        for k, rv in ropts:
            value_matches(rv, opts[k], key + "-option", out)
    ops = p.operations
    if len(ops) != len(ref.ops):
        out.append(Mismatch("op-count", "expected %d operations, got %d" % (len(ref.ops), len(ops))))
    if len(p) != len(ops):
        out.append(Mismatch("len", "len(program)=%d but %d operations" % (len(p), len(ops))))
    for i, (o, r) in enumerate(zip(ops, ref.ops)):
        if o.get("op") != r.op:
            out.append(Mismatch("op-name", "op %d: expected %r, got %r" % (i, r.op, o.get("op"))))
        modes = o.get("modes")
        if not isinstance(modes, list) or len(modes) != len(r.modes) or any(
                isinstance(m, (bool, np.bool_)) or not isinstance(m, numbers.Integral) for m in modes) or [int(m) for m in modes] != r.modes:
            out.append(Mismatch("op-modes", "op %d (%s): expected modes %r, got %r" % (i, r.op, r.modes, modes)))
        if r.args is None:
            if o.get("args") or o.get("kwargs"):
                out.append(Mismatch("op-args-unexpected", "op %d (%s) written without arguments has %r %r" % (i, r.op, o.get("args"), o.get("kwargs"))))
            continue
        if "args" not in o or "kwargs" not in o:
            out.append(Mismatch("op-args-missing", "op %d (%s) written with (...) has no args/kwargs keys" % (i, r.op)))
            continue
        if len(o["args"]) != len(r.args):
            out.append(Mismatch("op-args-count", "op %d (%s): expected %d positional arguments, got %r" % (i, r.op, len(r.args), o["args"])))
        else:
            for rv, av in zip(r.args, o["args"]):
                value_matches(rv, av, "arg", out)
        if list(o["kwargs"]) != [k for k, _ in r.kwargs]:
            out.append(Mismatch("op-kwarg-keys", "op %d (%s): expected keywords %r, got %r" % (i, r.op, [k for k, _ in r.kwargs], list(o["kwargs"]))))
        else:
            for k, rv in r.kwargs:
                value_matches(rv, o["kwargs"][k], "kwarg", out)
    want_modes = ref.modes
    got_modes = p.modes
    if not isinstance(got_modes, set) or {int(m) for m in got_modes} != want_modes:
        out.append(Mismatch("mode-set", "expected %r, got %r" % (sorted(want_modes), got_modes)))
    return out


# ------------------------------------------------------------------ numeric closeness of delivered values

def contains_sympy(v):
    if isinstance(v, sym.Basic):
        return True
    if _is_rrt(v):
        return False
    if isinstance(v, np.ndarray):
        return v.dtype == object and any(isinstance(x, sym.Basic) for x in v.flatten())
    if isinstance(v, (list, tuple)):
        return any(contains_sympy(x) for x in v)
    if isinstance(v, dict):
        return any(contains_sympy(x) for x in v.values())
    return False


def values_close(a, b, path, out, rtol=1e-9):
    """Numerical agreement of two delivered values (kinds may differ: 3 vs 3.0)."""
    if isinstance(a, np.ndarray) or isinstance(b, np.ndarray):
        if not (isinstance(a, np.ndarray) and isinstance(b, np.ndarray)):
            out.append(Mismatch("%s:array-vs-other" % path, "%r vs %r" % (a, b)))
            return
        if a.shape != b.shape:
            out.append(Mismatch("%s:array-shape" % path, "%r vs %r" % (a.shape, b.shape)))
            return
        for x, y in zip(a.flatten(), b.flatten()):
            values_close(x, y, path + "[]", out, rtol)
        return
    if isinstance(a, (list, tuple)) or isinstance(b, (list, tuple)):
        if not (isinstance(a, (list, tuple)) and isinstance(b, (list, tuple))) or len(a) != len(b):
            out.append(Mismatch("%s:list" % path, "%r vs %r" % (a, b)))
            return
        for x, y in zip(a, b):
            values_close(x, y, path + "[]", out, rtol)
        return
    if isinstance(a, (str, bool, np.bool_)) or isinstance(b, (str, bool, np.bool_)):
        if type(a) is not type(b) and not (isinstance(a, (bool, np.bool_)) and isinstance(b, (bool, np.bool_))):
            out.append(Mismatch("%s:kind" % path, "%r vs %r" % (a, b)))
        elif a != b:
            out.append(Mismatch("%s:value" % path, "%r vs %r" % (a, b)))
        return
    if _is_rrt(a) and _is_rrt(b):
        values_equal(a, b, path, out, rtol)
        return
    try:
        ca, cb = complex(a), complex(b)
    except Exception:
        out.append(Mismatch("%s:non-numeric" % path, "%r vs %r" % (a, b)))
        return
    if ca != ca or cb != cb or abs(ca - cb) > rtol * max(abs(ca), abs(cb)):
        out.append(Mismatch("%s:value" % path, "%r vs %r" % (a, b)))

"""Command-line entry (python -m bbv.cli ...): keeps bbv.run imported under one name only."""
import sys

from bbv.run import main

if __name__ == "__main__":
    sys.exit(main(sys.argv[1:]))

"""Coverage-guided second driver for C10 (thorough tier): atheris / libFuzzer over two decoders.

  mode "tokens": bytes -> choice sequence over the token vocabulary and separators (structured, reaches every rule context);
  mode "raw"   : bytes -> text (latin-1), seeded with the repository's example scripts.

The semantic oracle is inside the target (bbv.props.c10.check: reference recogniser verdict, exception type,
reported position, loads vs parse).  Violations do not crash the fuzzer: the first input per bucket is appended
to the findings file, so one shallow defect cannot hide the rest.  Coverage is instrumented for the hand-written
modules only (the generated ANTLR parser is table driven).

usage: python -m bbv.fuzz.atheris_c10 <mode> <findings.jsonl> [libFuzzer args ... corpus_dir]
"""
import json
import sys

import atheris

with atheris.instrument_imports(include=["blackbird.error", "blackbird.listener", "blackbird.auxiliary", "blackbird.program", "blackbird"]):
    import blackbird  # noqa
    import blackbird.error  # noqa
    import blackbird.listener  # noqa

from bbv.props import c10  # noqa: E402

MODE = sys.argv[1]
FINDINGS = sys.argv[2]
SEEN = set()
COUNT = [0]
SEPS = [" ", " ", "", "\n", "\n    ", "\n\t", "\r\n", ", "]
HEADS = ["name a\nversion 1.0\n", "name a\nversion 1.0\n", "name a\nversion 1.0\ntarget d (o=1)\n", ""]


def decode(data):
    if MODE == "raw":
        return data.decode("latin-1")
    voc = c10.vocab()
    fdp = atheris.FuzzedDataProvider(data)
    parts = [HEADS[fdp.ConsumeIntInRange(0, len(HEADS) - 1)]]
    n = fdp.ConsumeIntInRange(0, 48)
    for _ in range(n):
        parts.append(voc[fdp.ConsumeIntInRange(0, len(voc) - 1)])
        parts.append(SEPS[fdp.ConsumeIntInRange(0, len(SEPS) - 1)])
    return "".join(parts)


def TestOneInput(data):
    COUNT[0] += 1
    text = decode(data)
    if len(text) > 600:
        return
    try:
        out = c10.check({"kind": "atheris:" + MODE, "text": text})
    except RecursionError:
        return
    for v in out.violations:
        if v.bucket not in SEEN:
            SEEN.add(v.bucket)
            with open(FINDINGS, "a", encoding="utf-8") as f:
                f.write(json.dumps({"bucket": v.bucket, "detail": v.detail, "text": text}) + "\n")


def main():
    atheris.Setup([sys.argv[0]] + sys.argv[3:], TestOneInput)
    atheris.Fuzz()


if __name__ == "__main__":
    main()

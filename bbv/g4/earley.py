"""Earley recogniser over the parser rules of blackbird.g4 (as read by reader.Grammar).

The EBNF bodies are flattened into plain productions; left recursion and ambiguity
(the `expression` rule) are handled natively by Earley, so the *language* is decided
without ANTLR's precedence rewriting.  recognise() returns (accepted, k) where k is
the index of the first token after which no sentence of the grammar has the consumed
tokens as a prefix (None if accepted).
"""


class CFG:
    def __init__(self, grammar, start="start"):
        self.g = grammar
        self.prods = []        # (lhs, rhs tuple); symbol = ('t', name) | ('n', name)
        self.by_lhs = {}
        self._n = 0
        for name, ast, _ in grammar.parser_rules:
            for rhs in self._alts(ast):
                self._add(name, rhs)
        self.start = start
        self.nullable = self._nullable()
        # integer encoding
        self.nts = sorted(self.by_lhs)
        self.nt_id = {n: i for i, n in enumerate(self.nts)}
        self.pl = []
        for lhs, rhs in self.prods:
            self.pl.append((self.nt_id[lhs], tuple((0, s[1]) if s[0] == "t" else (1, self.nt_id[s[1]]) for s in rhs)))
        self.by = {}
        for i, (l, _) in enumerate(self.pl):
            self.by.setdefault(l, []).append(i)
        self.nullable_ids = {self.nt_id[n] for n in self.nullable}
        self.min_len = self._min_len()

    def _fresh(self, hint):
        self._n += 1
        return "%s#%d" % (hint, self._n)

    def _add(self, lhs, rhs):
        self.prods.append((lhs, tuple(rhs)))
        self.by_lhs.setdefault(lhs, []).append(tuple(rhs))

    def _alts(self, ast):
        """List of RHS (lists of symbols) for an AST node used as a rule body."""
        if ast[0] == "alt":
            res = []
            for a in ast[1]:
                res.extend(self._alts(a))
            return res
        return [self._seq(ast)]

    def _seq(self, ast):
        if ast[0] == "seq":
            rhs = []
            for p in ast[1]:
                rhs.extend(self._seq(p))
            return rhs
        return [self._sym(ast)]

    def _sym(self, ast):
        k = ast[0]
        if k == "tok":
            return ("t", ast[1])
        if k == "rule":
            return ("n", ast[1])
        if k in ("alt", "seq"):
            nt = self._fresh("grp")
            for rhs in self._alts(ast):
                self._add(nt, rhs)
            return ("n", nt)
        if k == "opt":
            nt = self._fresh("opt")
            self._add(nt, [])
            for rhs in self._alts(ast[1]):
                self._add(nt, rhs)
            return ("n", nt)
        if k in ("star", "plus"):
            inner = self._fresh("itm")
            for rhs in self._alts(ast[1]):
                self._add(inner, rhs)
            nt = self._fresh(k)
            if k == "star":
                self._add(nt, [])
            else:
                self._add(nt, [("n", inner)])
            self._add(nt, [("n", nt), ("n", inner)])
            return ("n", nt)
        raise ValueError("unknown parser node %r" % (k,))

    def _nullable(self):
        nullable = set()
        changed = True
        while changed:
            changed = False
            for lhs, rhs in self.prods:
                if lhs not in nullable and all(s[0] == "n" and s[1] in nullable for s in rhs):
                    nullable.add(lhs)
                    changed = True
        return nullable

    def _min_len(self):
        INF = 10 ** 9
        ml = {n: INF for n in self.by_lhs}
        changed = True
        while changed:
            changed = False
            for lhs, rhs in self.prods:
                tot = 0
                for s in rhs:
                    tot += 1 if s[0] == "t" else ml[s[1]]
                if tot < ml[lhs]:
                    ml[lhs] = tot
                    changed = True
        return ml

    def recognise(self, names):
        """names: list of token names, ending with 'EOF'."""
        pl = self.pl
        by = self.by
        nullable = self.nullable_ids
        start_id = self.nt_id[self.start]
        cur = {}
        order = []

        def add(sets, lst, item):
            if item not in sets:
                sets[item] = True
                lst.append(item)

        for p in by[start_id]:
            add(cur, order, (p, 0, 0))
        chart = []
        n = len(names)
        for i in range(n + 1):
            # closure of cur
            idx = 0
            while idx < len(order):
                p, dot, origin = order[idx]
                idx += 1
                rhs = pl[p][1]
                if dot < len(rhs):
                    kind, val = rhs[dot]
                    if kind == 1:
                        for q in by[val]:
                            add(cur, order, (q, 0, i))
                        if val in nullable:
                            add(cur, order, (p, dot + 1, origin))
                else:
                    lhs = pl[p][0]
                    if origin == i:
                        # empty completion: handled by nullable advance above
                        for (q, qd, qo) in list(order):
                            qr = pl[q][1]
                            if qd < len(qr) and qr[qd] == (1, lhs):
                                add(cur, order, (q, qd + 1, qo))
                    else:
                        for (q, qd, qo) in chart[origin]:
                            qr = pl[q][1]
                            if qd < len(qr) and qr[qd] == (1, lhs):
                                add(cur, order, (q, qd + 1, qo))
            chart.append(order)
            if i == n:
                break
            tok = names[i]
            nxt, norder = {}, []
            for (p, dot, origin) in order:
                rhs = pl[p][1]
                if dot < len(rhs) and rhs[dot] == (0, tok):
                    add(nxt, norder, (p, dot + 1, origin))
            if not norder:
                return False, i
            cur, order = nxt, norder
        for (p, dot, origin) in order:
            if pl[p][0] == start_id and origin == 0 and dot == len(pl[p][1]):
                return True, None
        return False, n

    def expected_at_end(self, names):
        """Terminals that could follow the (viable) prefix names."""
        raise NotImplementedError

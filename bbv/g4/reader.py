"""Reader for src/blackbird.g4 (the subset of ANTLR4 grammar syntax the file uses).

Produces
  * lexer rules in file order: name -> regex AST, with 'fragment' and '-> skip' flags;
  * parser rules in file order: name -> EBNF AST, plus alternative labels.

Anything the reader does not understand raises GrammarError (the runner turns that
into a harness error, exit 2 -- never into a violation).

AST node shapes (tuples):
  ("seq", [nodes]) ("alt", [nodes]) ("star", node) ("plus", node) ("opt", node)
  lexer only : ("lit", "text") ("set", frozenset_of_chars, negated) ("any",) ("ref", "FRAGMENT_OR_TOKEN")
  parser only: ("tok", "NAME") ("rule", "name")
"""
import re


class GrammarError(Exception):
    pass


_ESC = {"n": "\n", "r": "\r", "t": "\t", "b": "\b", "f": "\f", "\\": "\\", "'": "'", '"': '"', "]": "]", "-": "-"}


def _strip_comments(text):
    out = []
    i = 0
    n = len(text)
    while i < n:
        c = text[i]
        if c == "'":
            j = i + 1
            while j < n and text[j] != "'":
                j += 2 if text[j] == "\\" else 1
            out.append(text[i:j + 1])
            i = j + 1
        elif c == "[" :
            # char set (only meaningful in lexer rules; parser rules do not use '[')
            j = i + 1
            while j < n and text[j] != "]":
                j += 2 if text[j] == "\\" else 1
            out.append(text[i:j + 1])
            i = j + 1
        elif text.startswith("/*", i):
            j = text.find("*/", i + 2)
            if j < 0:
                raise GrammarError("unterminated block comment")
            i = j + 2
        elif text.startswith("//", i):
            j = text.find("\n", i)
            i = n if j < 0 else j
        else:
            out.append(c)
            i += 1
    return "".join(out)


def _tokenise(body):
    """Tokenise a rule body."""
    toks = []
    i = 0
    n = len(body)
    while i < n:
        c = body[i]
        if c.isspace():
            i += 1
        elif c == "'":
            j = i + 1
            s = []
            while j < n and body[j] != "'":
                if body[j] == "\\":
                    e = body[j + 1]
                    if e == "u":
                        s.append(chr(int(body[j + 2:j + 6], 16)))
                        j += 6
                        continue
                    if e not in _ESC:
                        raise GrammarError("unknown escape \\%s" % e)
                    s.append(_ESC[e])
                    j += 2
                else:
                    s.append(body[j])
                    j += 1
            toks.append(("lit", "".join(s)))
            i = j + 1
        elif c == "[":
            j = i + 1
            items = []
            while j < n and body[j] != "]":
                if body[j] == "\\":
                    e = body[j + 1]
                    if e not in _ESC:
                        raise GrammarError("unknown escape \\%s in set" % e)
                    items.append((_ESC[e], True))
                    j += 2
                else:
                    items.append((body[j], False))
                    j += 1
            chars = set()
            k = 0
            while k < len(items):
                if k + 2 < len(items) and items[k + 1] == ("-", False):
                    lo, hi = ord(items[k][0]), ord(items[k + 2][0])
                    if lo > hi:
                        raise GrammarError("bad range")
                    chars.update(chr(x) for x in range(lo, hi + 1))
                    k += 3
                else:
                    chars.add(items[k][0])
                    k += 1
            toks.append(("set", frozenset(chars)))
            i = j + 1
        elif body.startswith("->", i):
            toks.append(("arrow",))
            i += 2
        elif body.startswith("+=", i):
            toks.append(("pluseq",))
            i += 2
        elif c in "()|*+?~.=#":
            toks.append((c,))
            i += 1
        elif c == "<":
            j = body.find(">", i)
            toks.append(("option", body[i + 1:j]))
            i = j + 1
        elif c.isalpha() or c == "_":
            m = re.match(r"[A-Za-z_][A-Za-z_0-9]*", body[i:])
            toks.append(("id", m.group(0)))
            i += len(m.group(0))
        else:
            raise GrammarError("unexpected character %r in grammar" % c)
    return toks


class _P:
    def __init__(self, toks, lexer):
        self.t = toks
        self.i = 0
        self.lexer = lexer
        self.labels = []

    def peek(self):
        return self.t[self.i] if self.i < len(self.t) else ("eof",)

    def next(self):
        t = self.peek()
        self.i += 1
        return t

    def alt(self):
        alts = [self.seq()]
        while self.peek()[0] == "|":
            self.next()
            alts.append(self.seq())
        return alts[0] if len(alts) == 1 else ("alt", alts)

    def seq(self):
        items = []
        while True:
            k = self.peek()[0]
            if k in ("|", ")", "eof", "arrow"):
                break
            if k == "#":
                self.next()
                self.labels.append(self.next()[1])
                continue
            if k == "option":
                self.next()
                continue
            items.append(self.suffixed())
        if len(items) == 1:
            return items[0]
        return ("seq", items)

    def suffixed(self):
        a = self.atom()
        while self.peek()[0] in ("*", "+", "?"):
            k = self.next()[0]
            a = ({"*": "star", "+": "plus", "?": "opt"}[k], a)
        return a

    def atom(self):
        t = self.next()
        k = t[0]
        if k == "(":
            a = self.alt()
            if self.next()[0] != ")":
                raise GrammarError("missing )")
            return a
        if k == "lit":
            if not self.lexer:
                raise GrammarError("literal in parser rule not supported")
            return ("lit", t[1])
        if k == "set":
            return ("set", t[1], False)
        if k == "~":
            a = self.atom()
            if a[0] == "set":
                return ("set", a[1], not a[2])
            if a[0] == "lit" and len(a[1]) == 1:
                return ("set", frozenset(a[1]), True)
            raise GrammarError("~ applied to unsupported element")
        if k == ".":
            return ("any",)
        if k == "id":
            # label?  x=elem  or x+=elem
            if self.peek()[0] in ("=", "pluseq"):
                self.next()
                return self.atom()
            name = t[1]
            if self.lexer:
                return ("ref", name)
            return ("tok", name) if name[0].isupper() else ("rule", name)
        raise GrammarError("unexpected grammar token %r" % (t,))


class Grammar:
    def __init__(self, text):
        text = _strip_comments(text)
        m = re.match(r"\s*grammar\s+(\w+)\s*;", text)
        if not m:
            raise GrammarError("no grammar header")
        self.name = m.group(1)
        rest = text[m.end():]
        self.lexer_rules = []   # (name, ast, fragment, skip)
        self.parser_rules = []  # (name, ast, labels)
        for name, body, fragment in self._split_rules(rest):
            toks = _tokenise(body)
            if name[0].isupper():
                p = _P(toks, True)
                ast = p.alt()
                skip = False
                if p.peek()[0] == "arrow":
                    p.next()
                    cmd = p.next()
                    if cmd == ("id", "skip"):
                        skip = True
                    elif cmd == ("id", "channel"):
                        # -> channel(HIDDEN) / channel(1): the token is produced, off the default channel
                        rest_ = []
                        while p.peek()[0] != "eof":
                            rest_.append(p.next())
                        txt = "".join(str(t[1]) if len(t) > 1 else str(t[0]) for t in rest_)
                        if txt.replace(" ", "") not in ("(HIDDEN)", "(1)"):
                            raise GrammarError("unsupported lexer channel %r" % (rest_,))
                        skip = "hidden"
                    else:
                        raise GrammarError("unsupported lexer command %r" % (cmd,))
                if p.peek()[0] != "eof":
                    raise GrammarError("trailing tokens in rule %s" % name)
                self.lexer_rules.append((name, ast, fragment, skip))
            else:
                p = _P(toks, False)
                ast = p.alt()
                if p.peek()[0] != "eof":
                    raise GrammarError("trailing tokens in rule %s" % name)
                self.parser_rules.append((name, ast, p.labels))
        self.token_names = [n for n, _, frag, _ in self.lexer_rules if not frag]
        self.token_type = {n: i + 1 for i, n in enumerate(self.token_names)}
        self.skipped = {n for n, _, frag, sk in self.lexer_rules if sk is True}
        self.hidden = {n for n, _, frag, sk in self.lexer_rules if sk == "hidden"}
        self.rule_names = [n for n, _, _ in self.parser_rules]
        # literal text of tokens defined as one plain literal (for literalNames)
        self.literal = {}
        for n, ast, frag, _ in self.lexer_rules:
            if not frag and ast[0] == "lit":
                self.literal[n] = ast[1]

    @staticmethod
    def _split_rules(text):
        rules = []
        i = 0
        n = len(text)
        while True:
            m = re.compile(r"\s*(fragment\s+)?([A-Za-z_]\w*)\s*:").match(text, i)
            if not m:
                if text[i:].strip():
                    raise GrammarError("cannot parse grammar near %r" % text[i:i + 40])
                break
            j = m.end()
            start = j
            while j < n and text[j] != ";":
                if text[j] == "'":
                    j += 1
                    while text[j] != "'":
                        j += 2 if text[j] == "\\" else 1
                elif text[j] == "[":
                    j += 1
                    while text[j] != "]":
                        j += 2 if text[j] == "\\" else 1
                j += 1
            rules.append((m.group(2), text[start:j], bool(m.group(1))))
            i = j + 1
        return rules


def load(path):
    with open(path, encoding="utf-8") as f:
        return Grammar(f.read())

"""Reference lexer derived from the lexer rules of blackbird.g4.

Semantics implemented (ANTLR4): at each position every non-fragment rule is tried
simultaneously (NFA simulation with a lazily built DFA), the longest match wins and
among equally long matches the rule written first in the grammar wins; rules marked
'-> skip' produce no token; an EOF token is appended.  Line numbers advance on '\\n'
only and columns count characters since the last '\\n' (that is what the ANTLR
runtime does; it matters for '\\r' line endings).
"""
from collections import namedtuple

Tok = namedtuple("Tok", "type name text start stop line col")

EOF = -1


class RefLexer:
    def __init__(self, grammar):
        self.g = grammar
        self.frag = {n: ast for n, ast, frag, _ in grammar.lexer_rules}
        self.eps = []      # state -> list of states
        self.trans = []    # state -> list of (kind, chars, negated, target)
        self.accept = {}   # state -> rule index (token order)
        self.alphabet = set()
        self.rules = [(n, ast, sk) for n, ast, frag, sk in grammar.lexer_rules if not frag]
        start = self._new()
        for idx, (n, ast, sk) in enumerate(self.rules):
            s, e = self._build(ast, 0)
            self.eps[start].append(s)
            self.accept[e] = idx
        self.start = start
        self._dfa = {}
        self._dfa_accept = {}
        self._closure_cache = {}
        self.d0 = self._closure(frozenset([start]))

    def _new(self):
        self.eps.append([])
        self.trans.append([])
        return len(self.eps) - 1

    def _build(self, ast, depth):
        if depth > 50:
            raise ValueError("recursive lexer rule")
        k = ast[0]
        if k == "lit":
            s = self._new()
            cur = s
            for ch in ast[1]:
                nxt = self._new()
                self.trans[cur].append((frozenset(ch), False, nxt))
                self.alphabet.add(ch)
                cur = nxt
            return s, cur
        if k == "set":
            s, e = self._new(), self._new()
            self.trans[s].append((ast[1], ast[2], e))
            self.alphabet.update(ast[1])
            return s, e
        if k == "any":
            s, e = self._new(), self._new()
            self.trans[s].append((frozenset(), True, e))
            return s, e
        if k == "ref":
            return self._build(self.frag[ast[1]], depth + 1)
        if k == "seq":
            s = e = None
            for part in ast[1]:
                ps, pe = self._build(part, depth)
                if s is None:
                    s = ps
                else:
                    self.eps[e].append(ps)
                e = pe
            return s, e
        if k == "alt":
            s, e = self._new(), self._new()
            for part in ast[1]:
                ps, pe = self._build(part, depth)
                self.eps[s].append(ps)
                self.eps[pe].append(e)
            return s, e
        if k in ("star", "plus", "opt"):
            ps, pe = self._build(ast[1], depth)
            s, e = self._new(), self._new()
            self.eps[s].append(ps)
            self.eps[pe].append(e)
            if k in ("star", "opt"):
                self.eps[s].append(e)
            if k in ("star", "plus"):
                self.eps[pe].append(ps)
            return s, e
        raise ValueError("unknown lexer node %r" % (k,))

    def _closure(self, states):
        if states in self._closure_cache:
            return self._closure_cache[states]
        seen = set(states)
        stack = list(states)
        while stack:
            s = stack.pop()
            for t in self.eps[s]:
                if t not in seen:
                    seen.add(t)
                    stack.append(t)
        res = frozenset(seen)
        self._closure_cache[states] = res
        acc = [self.accept[s] for s in res if s in self.accept]
        self._dfa_accept[res] = sorted(acc)
        return res

    def _step(self, dstate, ch):
        key = ch if ch in self.alphabet else "\0other"
        ck = (dstate, key)
        hit = self._dfa.get(ck)
        if hit is not None:
            return hit
        nxt = set()
        for s in dstate:
            for chars, neg, tgt in self.trans[s]:
                if (ch in chars) != neg:
                    nxt.add(tgt)
        res = self._closure(frozenset(nxt)) if nxt else frozenset()
        self._dfa[ck] = res
        return res

    def match_at(self, text, pos):
        """Longest match at pos: returns (end, rule_index, all_rule_indices_matching_at_that_length)."""
        d = self.d0
        best = None
        i = pos
        n = len(text)
        while i < n:
            d = self._step(d, text[i])
            if not d:
                break
            i += 1
            acc = self._dfa_accept[d]
            if acc:
                best = (i, acc[0], acc)
        return best

    def tokens(self, text, with_ties=False, hidden=False):
        """Token list (skipped rules omitted) ending with EOF. If with_ties, also returns the
        number of positions where two or more rules matched at the winning length."""
        out = []
        pos = 0
        line, col = 1, 0
        n = len(text)
        ties = 0
        while pos < n:
            m = self.match_at(text, pos)
            if m is None:
                raise ValueError("reference lexer: no rule matches at %d (grammar has no catch-all?)" % pos)
            end, ridx, acc = m
            if len(acc) > 1:
                ties += 1
            name, _, skip = self.rules[ridx]
            if skip == "hidden":
                # produced on the hidden channel: invisible to the parser, part of the lexer's output
                if hidden:
                    out.append(Tok(ridx + 1, name + "@hidden", text[pos:end], pos, end - 1, line, col))
            elif not skip:
                out.append(Tok(ridx + 1, name, text[pos:end], pos, end - 1, line, col))
            for ch in text[pos:end]:
                if ch == "\n":
                    line += 1
                    col = 0
                else:
                    col += 1
            pos = end
        out.append(Tok(EOF, "EOF", "<EOF>", n, n - 1, line, col))
        if with_ties:
            return out, ties
        return out

    def full_match(self, text):
        """Name of the token rule that lexes the whole text as one token, else None."""
        if not text:
            return None
        m = self.match_at(text, 0)
        if m and m[0] == len(text):
            return self.rules[m[1]][0]
        return None

"""Derivation of token-name sentences from the CFG and sampling of lexemes for token names
(Hypothesis strategies; every random choice is drawn from Hypothesis)."""
from hypothesis import strategies as st

from .. import ref

# hand-picked lexeme samples per token type (checked against the reference lexer at import of the strategies)
LEXEMES = {
    "INT": ["0", "3", "12", "007"],
    "FLOAT": ["1.5", "0.0", "2e-3", "12.5E+1"],
    "COMPLEX": ["2j", "1+2j", "-3.5J", "1e2-0.5j"],
    "STR": ['"s"', '""', '"a b#c"'],
    "BOOL": ["True", "False"],
    "SEQUENCE": ["1,2", "1.5,2,3"],
    "NAME": ["x", "Sgate", "a_1", "namex", "p0"],
    "DEVICE": ["X8.1", "8x", "a.b"],
    "REGREF": ["q0", "q12"],
    "MEASURE": ["Measure", "MeasureX", "MeasureFock"],
    "NEWLINE": ["\n", "\r\n", "\r"],
    "TAB": ["\t", "    "],
    "ANY": ["$", ";", "@", "%", "?", "~", "&", "\\", "`", "!", "é", "'"],
    "SPACE": [" ", "  ", " \t"],
    "COMMENT": ["# c", "#"],
}


def lexemes_for(name):
    g = ref.grammar()
    if name in g.literal:
        return [g.literal[name]]
    return LEXEMES.get(name, ["x"])


def vocabulary():
    """(token name, lexeme) pairs for every token type, validated with the reference lexer."""
    g = ref.grammar()
    lx = ref.lexer()
    out = []
    for name in g.token_names:
        for s in lexemes_for(name):
            got = lx.full_match(s)
            # the samples are only seeds: keep them whatever they lex as under the current grammar
            out.append((name if got == name else (got or name), s))
    return out


@st.composite
def sentence(draw, max_depth=12, start="start"):
    """A random sentence (list of token names, without EOF) derived from the grammar."""
    cfg = ref.cfg()
    by = cfg.by_lhs
    ml = cfg.min_len
    out = []

    def expand(nt, depth):
        alts = by[nt]
        if depth <= 0:
            # cheapest alternative(s)
            costs = [sum(1 if s[0] == "t" else ml[s[1]] for s in rhs) for rhs in alts]
            m = min(costs)
            alts = [a for a, c in zip(alts, costs) if c == m]
        rhs = alts[draw(st.integers(0, len(alts) - 1))] if len(alts) > 1 else alts[0]
        for s in rhs:
            if s[0] == "t":
                out.append(s[1])
            else:
                expand(s[1], depth - 1)
            if len(out) > 400:
                return

    expand(start, max_depth)
    if out and out[-1] == "EOF":
        out.pop()
    return out[:400]


@st.composite
def sentence_text(draw, names):
    """Text for a token-name sentence: a lexeme per token, separated so that the lexer gives the tokens back."""
    parts = []
    prev = None
    for n in names:
        lex = draw(st.sampled_from(lexemes_for(n)))
        if prev is not None and prev not in ("NEWLINE", "TAB") and n not in ("NEWLINE",):
            parts.append(" ")
        parts.append(lex)
        prev = n
    return "".join(parts)

"""Child interpreter of the configuration differential C19: loads every corpus entry under the
PYTHONHASHSEED it was started with and writes, per entry, the canonical content and dumps() text."""
import json
import os
import shutil
import sys
import tempfile
import warnings


def outcome(entry):
    import blackbird
    from bbv import canon
    canon.EXACT_TRANSFORMS = True
    d = None
    try:
        with warnings.catch_warnings():
            warnings.simplefilter("ignore")
            if "files" in entry:
                d = tempfile.mkdtemp(prefix="bbv-c19-")
                for rel, text in entry["files"].items():
                    path = os.path.join(d, rel)
                    os.makedirs(os.path.dirname(path), exist_ok=True)
                    with open(path, "w", encoding="ascii", newline="") as f:
                        f.write(text.replace("<ROOT>", d))
                p = blackbird.load(os.path.join(d, entry["main"]))
            else:
                p = blackbird.loads(entry["text"])
            res = {"content": canon.snapshot(p)}
            try:
                res["dumps"] = blackbird.dumps(p)
            except Exception as e:
                res["dumps"] = "dumps-error:%s" % type(e).__name__
            try:
                again = blackbird.dumps(p)
            except Exception as e:
                again = "dumps-error:%s" % type(e).__name__
            # serialising the same program object a second time in the same process gives the same text
            res["dumps_repeatable"] = again == res["dumps"]
            if d:
                # the same main script given as text while the process stands in the tree's root directory; the directory
                # the interpreter was started in (and blackbird imported in) differs between the children
                here = os.getcwd()
                try:
                    os.chdir(d)
                    with open(os.path.join(d, entry["main"]), encoding="ascii", newline="") as f:
                        text = f.read()
                    if os.path.dirname(entry["main"]) == "":
                        try:
                            res["loads_in_root"] = canon.snapshot(blackbird.loads(text))
                        except Exception as e:
                            res["loads_in_root"] = "%s: %s" % (type(e).__name__, str(e).replace(d, "<ROOT>"))
                finally:
                    os.chdir(here)
            return res
    except RecursionError:
        return {"exc": "RecursionError"}
    except Exception as e:
        msg = str(e)
        if d:
            msg = msg.replace(d, "<ROOT>")
        return {"exc": type(e).__name__, "msg": msg}
    finally:
        if d:
            shutil.rmtree(d, ignore_errors=True)


def main():
    import blackbird  # noqa: F401  (imported in the start directory, before any chdir)
    corpus = json.load(open(sys.argv[1]))
    out = {}
    for e in corpus:
        out[e["id"]] = outcome(e)
    with open(sys.argv[2], "w") as f:
        json.dump(out, f, default=str)


if __name__ == "__main__":
    main()

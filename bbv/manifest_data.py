"""Data for MANIFEST.json (tools/gen_manifest.py)."""
import json, os

_TB = ("Trusted: Hypothesis, CPython, NumPy/SymPy/mpmath/networkx arithmetic, the ANTLR runtime (not the generated files), "
       "and the reference components in /verif/bbv (grammar reader, reference lexer, Earley recogniser, reference interpreter), "
       "which are cross-validated against the implementation on the unchanged tree. Exploration never establishes absence.")

def _c(text, ref_, technique, note=None, category="exploration"):
    return {"text": text, "design_ref": "DESIGN.md section 4/" + ref_, "note": note or _TB, "technique": technique, "category": category}


CHECKS = {
    "C01": _c("Generated-input search (round trip): valid scripts with every construct are loaded, serialised and re-loaded for three "
              "generations; name/version/target/type/options/parameters/operations must come back exactly (symbolic arguments as equal "
              "functions). Two genuine defects are recorded as known findings and excluded by bucket so the search continues.",
              "C01", "property-based round-trip testing (Hypothesis) with root-cause bucketing"),
    "C02": _c("Generated-input search against a reference model: an independent interpreter of the script model computes the denoted "
              "program (metadata, options, operation list, modes, arguments, mode set, length) and blackbird.loads must agree on every "
              "generated script.", "C02", "property-based testing (Hypothesis) against an independent reference interpreter"),
    "C03": _c("Generated-input search: random typed expressions in every lexical form are loaded and compared with an mpmath "
              "reference evaluated on the tree fixed by the stated binding order (relative 1e-12, integer kind exact); failures are "
              "shrunk and localised to the culprit operator.", "C03",
              "property-based testing (Hypothesis) against an mpmath reference evaluator with error-bound conditioning filter"),
    "C04": _c("Generated-input search (metamorphic/differential): template(**values) is compared with loading the text in which every "
              "{p} is replaced by its bracketed literal, plus the parameter-set, is_template, no-symbol-left and missing-value laws.",
              "C04", "property-based metamorphic testing (Hypothesis): instantiate vs textual substitution"),
    "C05": _c("Generated-input search against the reference model for declared types, array layout/shape/dtype and A[k], with negative "
              "variants (ragged rows, contradicting shapes) that must be refused.", "C05",
              "property-based testing (Hypothesis) against a reference model, with generated negative cases"),
    "C06": _c("Generated-input search (metamorphic + reference): each loop script is compared with its textual unrolling and with the "
              "reference interpreter; negative variants (loop variable used after the loop, wrong-typed list value) must be refused.",
              "C06", "property-based metamorphic testing (Hypothesis): loop vs unrolled text"),
    "C08": _c("Generated-input search against the reference model: register expressions must arrive as transforms whose listed registers "
              "are exactly the written ones and whose function, applied in the listed order, computes the written formula; shards run "
              "under different PYTHONHASHSEED values because the pairing is hash-order dependent.", "C08",
              "property-based testing (Hypothesis) against a reference model, across hash seeds"),
    "C10": _c("Generated-input search against a grammar-derived recogniser: grammatical texts, all kinds of single-token mutants, "
              "truncations, token soups and raw strings; verdict, exception type and reported position are checked against the first "
              "non-viable token computed by an Earley recogniser built from blackbird.g4 at run time.", "C10",
              "grammar-based fuzzing / property-based testing (Hypothesis) with an Earley reference recogniser as oracle"),
    "C14": _c("Complete comparison of all generated artefacts (six copies of the serialised automata word by word, name tables, .tokens, "
              "listener/visitor method sets) with each other and with the token/rule order derived from blackbird.g4, plus differential "
              "testing of the shipped Python lexer and parser against the grammar-derived reference on generated strings, token "
              "sequences, their mutants and all sentences up to a length bound.", "C14",
              "differential testing (Hypothesis + bounded-exhaustive sentence enumeration) and exhaustive artefact comparison",
              note=_TB + " The C++ lexer/parser cannot be executed in this sandbox; for the C++ target the claim is artefact identity."),
}

NOTES = ("All checks: ./check <ID> quick|thorough; VERIF_SEED selects the Hypothesis seed; exit 0 held / 1 VIOLATION / 2 harness error. "
         "Known findings: KNOWN_FINDINGS.txt. Seeded changes and which checks catch them: DESIGN.md section 10 and /verif/seeded/.")

_ALL = ["C%02d" % i for i in range(1, 20)]
NOT_APPLICABLE = [{"property_id": p, "reason": "check not built yet (work in progress; will be claimed once its check is registered)"}
                  for p in _ALL if p not in CHECKS]

"""Data for MANIFEST.json (tools/gen_manifest.py)."""
import json, os

_TB = ("Trusted: Hypothesis, CPython, NumPy/SymPy/mpmath/networkx arithmetic, the ANTLR runtime (not the generated files), "
       "and the reference components in /verif/bbv (grammar reader, reference lexer, Earley recogniser, reference interpreter), "
       "which are cross-validated against the implementation on the unchanged tree. Exploration never establishes absence.")

CHECKS = {
    "C03": {
        "text": "Generated-input search: random typed expressions in every lexical form are loaded and compared with an mpmath "
                "reference evaluated on the tree fixed by the stated binding order (relative 1e-12, integer kind exact); "
                "thousands of well-conditioned cases per run, failures shrunk and localised to the culprit operator.",
        "design_ref": "DESIGN.md section 4/C03",
        "note": _TB,
        "technique": "property-based testing (Hypothesis) against an mpmath reference evaluator with error-bound conditioning filter",
    },
}

NOTES = ("All checks: ./check <ID> quick|thorough; VERIF_SEED selects the Hypothesis seed; exit 0 held / 1 VIOLATION / 2 harness error. "
         "Known findings: KNOWN_FINDINGS.txt. Seeded changes and which checks catch them: DESIGN.md section 10 and /verif/seeded/.")

_ALL = ["C%02d" % i for i in range(1, 20)]
NOT_APPLICABLE = [{"property_id": p, "reason": "check not built yet (work in progress; will be claimed once its check is registered)"}
                  for p in _ALL if p not in CHECKS]

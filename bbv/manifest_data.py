"""Data for MANIFEST.json (tools/gen_manifest.py)."""
import json, os

_TB = ("Trusted: Hypothesis, CPython, NumPy/SymPy/mpmath/networkx arithmetic, the ANTLR runtime (not the generated files), "
       "and the reference components in /verif/bbv (grammar reader, reference lexer, Earley recogniser, reference interpreter), "
       "which are cross-validated against the implementation on the unchanged tree. Exploration never establishes absence.")

def _c(text, ref_, technique, note=None, category="exploration"):
    return {"text": text, "design_ref": "DESIGN.md section 4/" + ref_, "note": note or _TB, "technique": technique, "category": category}


CHECKS = {
    "C01": _c("Generated-input search (round trip): valid scripts with every construct are loaded, serialised and re-loaded for three "
              "generations; name/version/target/type/options/parameters/operations must come back exactly (symbolic arguments as equal "
              "functions). Two genuine defects are recorded as known findings and excluded by bucket so the search continues.",
              "C01", "property-based round-trip testing (Hypothesis) with root-cause bucketing"),
    "C02": _c("Generated-input search against a reference model: an independent interpreter of the script model computes the denoted "
              "program (metadata, options, operation list, modes, arguments, mode set, length) and blackbird.loads must agree on every "
              "generated script.", "C02", "property-based testing (Hypothesis) against an independent reference interpreter"),
    "C03": _c("Generated-input search: random typed expressions in every lexical form are loaded and compared with an mpmath "
              "reference evaluated on the tree fixed by the stated binding order (relative 1e-12, integer kind exact); failures are "
              "shrunk and localised to the culprit operator.", "C03",
              "property-based testing (Hypothesis) against an mpmath reference evaluator with error-bound conditioning filter"),
    "C04": _c("Generated-input search (metamorphic/differential): template(**values) is compared with loading the text in which every "
              "{p} is replaced by its bracketed literal, plus the parameter-set, is_template, no-symbol-left and missing-value laws.",
              "C04", "property-based metamorphic testing (Hypothesis): instantiate vs textual substitution"),
    "C05": _c("Generated-input search against the reference model for declared types, array layout/shape/dtype and A[k], with negative "
              "variants (ragged rows, contradicting shapes) that must be refused.", "C05",
              "property-based testing (Hypothesis) against a reference model, with generated negative cases"),
    "C06": _c("Generated-input search (metamorphic + reference): each loop script is compared with its textual unrolling and with the "
              "reference interpreter; negative variants (loop variable used after the loop, wrong-typed list value) must be refused.",
              "C06", "property-based metamorphic testing (Hypothesis): loop vs unrolled text"),
    "C08": _c("Generated-input search against the reference model: register expressions must arrive as transforms whose listed registers "
              "are exactly the written ones and whose function, applied in the listed order, computes the written formula; shards run "
              "under different PYTHONHASHSEED values because the pairing is hash-order dependent.", "C08",
              "property-based testing (Hypothesis) against a reference model, across hash seeds"),
    "C10": _c("Generated-input search against a grammar-derived recogniser: grammatical texts, all kinds of single-token mutants, "
              "truncations, token soups and raw strings; verdict, exception type and reported position are checked against the first "
              "non-viable token computed by an Earley recogniser built from blackbird.g4 at run time.", "C10",
              "grammar-based fuzzing / property-based testing (Hypothesis; atheris campaigns in the thorough tier) with an Earley reference recogniser as oracle"),
    "C07": _c("Generated-input search against a reference inliner: generated directory trees of include files (arbitrary mode numbers, "
              "templates, nesting, repeated includes, relative/absolute paths, varying process working directories with decoy files) are "
              "loaded with blackbird.load and compared with the recursive expansion computed on the model.", "C07",
              "property-based testing (Hypothesis) against a reference inliner over generated file trees and working directories"),
    "C09": _c("Generated-input search (round trip against the constructed object): programs assembled through the Python API from every "
              "supported value kind, extreme array elements and option kinds are serialised, the text is checked against the grammar-derived "
              "recogniser and re-loaded, and the result must equal the constructed program.", "C09",
              "property-based round-trip testing (Hypothesis) of API-built programs"),
    "C11": _c("Generated fault injection: one fault (class x slot x position drawn independently) is injected into a valid generated script "
              "that stays grammatical; loading must raise, and for undefined/reserved names it must be BlackbirdSyntaxError naming the "
              "identifier and its line/column.", "C11", "property-based testing (Hypothesis) with single-fault injection over a typed script model"),
    "C12": _c("Generated histories of load/loads calls (valid, template, failing at each stage, probe scripts over a tiny shared name pool, "
              "include files rewritten at the same path, mutations of returned programs) run in one process; every outcome is compared "
              "with the same call executed alone in a process forked from a pristine zygote; earlier results must stay unchanged.", "C12",
              "model-based history generation (Hypothesis step lists) with a pristine-process differential oracle"),
    "C13": _c("Generated histories over a pool of loaded programs and templates: dumps, template calls, to_DiGraph, match_template, attribute "
              "reads and machine-made mutations of instances; after every step the serialisation and canonical content of every pool member "
              "must equal their recorded values.", "C13", "model-based history generation (Hypothesis step lists) with a state invariant after every step"),
    "C15": _c("Generated-input search against the reference model plus round trip for tdm scripts: p-arrays by name, declared data, other "
              "variables by value, parameters/is_template, and preservation through dumps/loads; control group with a non-tdm type.", "C15",
              "property-based testing (Hypothesis) against a reference model plus serialise/parse round trip"),
    "C16": _c("Generated-input search against an own dependency model: node set and attributes, forward edges, acyclicity, reachability "
              "equal to the transitive closure of shared-wire dependencies, and wire order in generated topological orders.", "C16",
              "property-based testing (Hypothesis) against a reference reachability relation"),
    "C17": _c("Generated-input search (inverse law): instances are produced from generated affine templates by text substitution and commuting "
              "reorderings; match_template must return the generated values; single structural edits must raise TemplateError.", "C17",
              "property-based testing (Hypothesis): left-inverse law with metamorphic reorderings and negative edits"),
    "C18": _c("Generated-input search (metamorphic): every script is rendered canonically and under an independently generated layout plan "
              "(line endings, comments, blank lines, spacing, indentation style, final newline); both must load to bit-identical content.", "C18",
              "property-based metamorphic testing (Hypothesis) over generated layout plans"),
    "C19": _c("Configuration differential: a generated corpus is loaded and serialised by several fresh interpreters started with different "
              "PYTHONHASHSEED values; canonical content and dumps() text must agree for every script; differing scripts are reduced and "
              "replayed.", "C19", "generated corpus (Hypothesis) + subprocess differential across hash seeds"),
    "C14": _c("Complete comparison of all generated artefacts (six copies of the serialised automata word by word, name tables, .tokens, "
              "listener/visitor method sets) with each other and with the token/rule order derived from blackbird.g4, plus differential "
              "testing of the shipped Python lexer and parser against the grammar-derived reference on generated strings, token "
              "sequences, their mutants and all sentences up to a length bound.", "C14",
              "differential testing (Hypothesis + bounded-exhaustive sentence enumeration) and exhaustive artefact comparison",
              note=_TB + " The C++ lexer/parser cannot be executed in this sandbox; for the C++ target the claim is artefact identity."),
}

NOTES = ("All checks: ./check <ID> quick|thorough; VERIF_SEED selects the Hypothesis seed; exit 0 held / 1 VIOLATION / 2 harness error. "
         "Known findings: KNOWN_FINDINGS.txt. Seeded changes and which checks catch them: DESIGN.md section 10 and /verif/seeded/.")

_ALL = ["C%02d" % i for i in range(1, 20)]
NOT_APPLICABLE = [{"property_id": p, "reason": "check not built yet (work in progress; will be claimed once its check is registered)"}
                  for p in _ALL if p not in CHECKS]

"""Script model: a typed description of a Blackbird script from which text is rendered
and against which the reference semantics is evaluated.

Expressions are kept in *surface* form (Flat: operands with prefix signs, separated by
binary operators, no implied brackets) so that precedence and associativity are decided
by whoever reads the text; `tree()` gives the denoted tree under the binding order of
property C03 (brackets, unary sign, right-assoc **, then * /, then + -, left-assoc).
"""
from dataclasses import dataclass, field, fields, is_dataclass
from typing import Any, List, Optional

_REG = {}


def node(cls):
    cls = dataclass(cls)
    _REG[cls.__name__] = cls
    return cls


def dump(x):
    """Model -> JSON-able structure."""
    if is_dataclass(x):
        d = {"_": type(x).__name__}
        for f in fields(x):
            d[f.name] = dump(getattr(x, f.name))
        return d
    if isinstance(x, (list, tuple)):
        return [dump(i) for i in x]
    if isinstance(x, dict):
        return {"_": "dict", "items": [[dump(k), dump(v)] for k, v in x.items()]}
    if isinstance(x, complex):
        return {"_": "complex", "re": repr(x.real), "im": repr(x.imag)}
    if isinstance(x, float):
        return {"_": "float", "v": repr(x)}
    return x


def load(x):
    if isinstance(x, dict):
        k = x["_"]
        if k == "dict":
            return {_h(load(a)): load(b) for a, b in x["items"]}
        if k == "complex":
            return complex(float(x["re"]), float(x["im"]))
        if k == "float":
            return float(x["v"])
        cls = _REG[k]
        return cls(**{f.name: load(x[f.name]) for f in fields(cls)})
    if isinstance(x, list):
        return [load(i) for i in x]
    return x


def _h(k):
    return tuple(k) if isinstance(k, list) else k


# ---------------------------------------------------------------- expressions (surface)

@node
class Num:
    kind: str          # int | float | complex | pi
    text: str          # exact lexeme


@node
class Var:
    name: str


@node
class Reg:
    text: str          # 'q' digits, e.g. q007


@node
class Idx:
    name: str
    index: Any         # Flat


@node
class Param:
    name: str


@node
class Paren:
    e: Any             # Flat


@node
class Fn:
    name: str
    e: Any             # Flat


@node
class Operand:
    signs: str         # e.g. '', '-', '+-'
    prim: Any


@node
class Flat:
    operands: List[Any]
    ops: List[str]     # len(operands) - 1, each in + - * / **


@node
class Str:
    text: str          # without quotes


@node
class Bool:
    value: bool


# tree forms (denoted structure)
@node
class TSign:
    op: str
    e: Any


@node
class TBin:
    op: str
    l: Any
    r: Any


def flat1(prim, signs=""):
    return Flat([Operand(signs, prim)], [])


def tree(flat):
    """Denoted tree of a surface expression (leaves keep their primary nodes; Paren/Fn/Idx
    contents are converted recursively on demand by the evaluator)."""
    vals = []
    for o in flat.operands:
        t = o.prim
        for s in reversed(o.signs):
            t = TSign(s, t)
        vals.append(t)
    ops = list(flat.ops)
    # ** right associative, tightest of the binary operators
    i = len(ops) - 1
    while i >= 0:
        if ops[i] == "**":
            vals[i:i + 2] = [TBin("**", vals[i], vals[i + 1])]
            del ops[i]
        i -= 1
    for level in (("*", "/"), ("+", "-")):
        i = 0
        while i < len(ops):
            if ops[i] in level:
                vals[i:i + 2] = [TBin(ops[i], vals[i], vals[i + 1])]
                del ops[i]
            else:
                i += 1
    assert len(vals) == 1 and not ops
    return vals[0]


def walk_prims(flat):
    """All primaries of a surface expression, recursively."""
    for o in flat.operands:
        p = o.prim
        yield p
        if isinstance(p, (Paren, Fn)):
            yield from walk_prims(p.e)
        elif isinstance(p, Idx):
            yield from walk_prims(p.index)


def walk_vals(val):
    if isinstance(val, Flat):
        yield from walk_prims(val)


# ---------------------------------------------------------------- script

@node
class Args:
    pos: List[Any]                 # Flat | Str | Bool
    kwargs: List[Any]              # [name, value] with value Flat | Str | Bool | ListVal
    trailing_comma: bool = False   # comma after the positional part (grammar: COMMA?)


@node
class ListVal:
    items: List[Any]


@node
class Meta:
    name: str
    args: Optional[Any] = None     # Args or None


@node
class ScalarDecl:
    vtype: str
    name: str
    init: Any                      # Flat | Str | Bool


@node
class ArrayDecl:
    vtype: str
    name: str
    shape: Optional[List[str]]     # INT lexemes or None
    rows: List[List[Any]]          # Flat elements


@node
class ArrayParamDecl:
    vtype: str
    name: str
    shape: Optional[List[str]]
    pname: str


@node
class Stmt:
    op: str
    args: Optional[Any]            # Args or None (no parentheses)
    modes: List[Any]               # Flat
    lbr: str = ""                  # '', '(' or '['
    rbr: str = ""                  # '', ')' or ']'


@node
class Range:
    a: str
    b: str
    c: Optional[str] = None


@node
class ForList:
    vals: List[Any]
    lbr: str = ""
    rbr: str = ""


@node
class For:
    vtype: str
    var: str
    header: Any                    # Range | ForList
    body: List[Any]                # Stmt


@node
class Script:
    name: str
    version: str
    target: Optional[Any] = None   # Meta
    ptype: Optional[Any] = None    # Meta
    includes: List[str] = field(default_factory=list)
    items: List[Any] = field(default_factory=list)


def statements(script):
    for it in script.items:
        if isinstance(it, Stmt):
            yield it
        elif isinstance(it, For):
            yield from it.body


# ---------------------------------------------------------------- transformers

def map_flat(flat, fn):
    """Copy of a surface expression with every primary p replaced by fn(p) (fn sees primaries
    bottom-up; it returns a primary)."""
    ops = []
    for o in flat.operands:
        p = o.prim
        if isinstance(p, Paren):
            p = Paren(map_flat(p.e, fn))
        elif isinstance(p, Fn):
            p = Fn(p.name, map_flat(p.e, fn))
        elif isinstance(p, Idx):
            p = Idx(p.name, map_flat(p.index, fn))
        ops.append(Operand(o.signs, fn(p)))
    return Flat(ops, list(flat.ops))


def map_val(v, fn):
    if isinstance(v, Flat):
        return map_flat(v, fn)
    if isinstance(v, ListVal):
        return ListVal([map_val(i, fn) for i in v.items])
    return v


def map_args(args, fn):
    if args is None:
        return None
    return Args([map_val(v, fn) for v in args.pos], [[k, map_val(v, fn)] for k, v in args.kwargs], args.trailing_comma)


def map_stmt(st, fn):
    return Stmt(st.op, map_args(st.args, fn), [map_flat(m, fn) for m in st.modes], st.lbr, st.rbr)


def map_script(script, fn, item_fn=None):
    """Copy of a script with fn applied to every primary of every expression; item_fn(item) may
    return a replacement item (or None to keep the mapped item)."""
    items = []
    for it in script.items:
        if item_fn is not None:
            r = item_fn(it)
            if r is not None:
                items.append(r)
                continue
        if isinstance(it, ScalarDecl):
            items.append(ScalarDecl(it.vtype, it.name, map_val(it.init, fn)))
        elif isinstance(it, ArrayDecl):
            items.append(ArrayDecl(it.vtype, it.name, it.shape, [[map_flat(e, fn) for e in r] for r in it.rows]))
        elif isinstance(it, ArrayParamDecl):
            items.append(ArrayParamDecl(it.vtype, it.name, it.shape, it.pname))
        elif isinstance(it, Stmt):
            items.append(map_stmt(it, fn))
        elif isinstance(it, For):
            h = it.header
            if isinstance(h, ForList):
                h = ForList([map_val(v, fn) for v in h.vals], h.lbr, h.rbr)
            items.append(For(it.vtype, it.var, h, [map_stmt(s, fn) for s in it.body]))
    meta = []
    for m in (script.target, script.ptype):
        meta.append(None if m is None else Meta(m.name, map_args(m.args, fn)))
    return Script(script.name, script.version, meta[0], meta[1], list(script.includes), items)


def number_literal(x):
    """Primary (bracketed when signed) denoting the Python number x exactly."""
    import numbers
    if isinstance(x, bool):
        raise ValueError("bool is not a number literal")
    if isinstance(x, numbers.Integral):
        x = int(x)
        if x < 0:
            return Paren(Flat([Operand("-", Num("int", str(-x)))], []))
        return Paren(Flat([Operand("", Num("int", str(x)))], []))
    if isinstance(x, numbers.Real):
        x = float(x)
        r = repr(abs(x))
        if "inf" in r or "nan" in r:
            raise ValueError("non-finite")
        sign = "-" if (x < 0 or (x == 0 and str(x).startswith("-"))) else ""
        return Paren(Flat([Operand(sign, Num("float", r))], []))
    c = complex(x)
    re, im = c.real, c.imag
    txt = "%s%s%sj" % (repr(re), "-" if (im < 0 or str(im).startswith("-")) else "+", repr(abs(im)))
    return Paren(Flat([Operand("", Num("complex", txt))], []))

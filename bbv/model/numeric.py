"""Reference arithmetic: exact integers, 50-digit mpmath reals/complexes with a first-order
running error bound for the float64 computation the implementation is expected to do.

A value is V(kind, v, err): kind in {"int", "real", "complex"}; v is a Python int, mpf or mpc;
err is an absolute bound (mpf) on how far a faithful float64 evaluation of the same
expression tree may be from v.  A case is "well conditioned" when err <= COND * |v|;
the oracles compare with relative 1e-12 only on such cases, so cancellation-dominated
expressions are discarded (counted), never reported.
"""
import mpmath

mp = mpmath.mp.clone()
mp.dps = 50
mpf, mpc = mp.mpf, mp.mpc

U = mpf(2) ** -53          # unit roundoff of float64
K = 4                      # safety factor on each rounding
COND = mpf("1e-14")
I64 = 2 ** 63


class OutOfDomain(Exception):
    """The expression lies outside the input domain the properties quantify over."""

    def __init__(self, reason):
        super().__init__(reason)
        self.reason = reason


class V:
    __slots__ = ("kind", "v", "err")

    def __init__(self, kind, v, err=0):
        self.kind = kind
        self.v = v
        self.err = mpf(err)

    def __repr__(self):
        return "V(%s, %s, err=%s)" % (self.kind, mp.nstr(self.v, 20) if self.kind != "int" else self.v,
                                      mp.nstr(self.err, 3))

    @property
    def mag(self):
        return abs(self.v) if self.kind != "int" else abs(mpf(self.v))

    def well_conditioned(self):
        if self.kind == "int":
            return True
        if self.v == 0:
            return self.err == 0
        return self.err <= COND * self.mag

    def as_mp(self):
        return mpf(self.v) if self.kind == "int" else self.v


def from_int(i):
    if not -I64 <= i < I64:
        raise OutOfDomain("int64 range")
    return V("int", int(i))


def from_int_literal(i):
    """An integer literal of any size (a Python int in the package); arithmetic on one beyond the 64-bit range is outside
    the domain, passing it on, negating it or storing it in a scalar is not."""
    return V("int", int(i))


def _big(*xs):
    return any(x.kind == "int" and not -I64 <= x.v < I64 for x in xs)


def _no_big(*xs):
    if _big(*xs):
        raise OutOfDomain("arithmetic on an integer beyond the 64-bit range")


def from_float_text(text):
    f = float(text)
    if f != f or f in (float("inf"), float("-inf")):
        raise OutOfDomain("non-finite literal")
    return V("real", mpf(f), 0)      # the literal denotes its nearest double, exactly


def from_float(f):
    if f != f or f in (float("inf"), float("-inf")):
        raise OutOfDomain("non-finite")
    return V("real", mpf(f), 0)


def from_complex(c):
    for p in (c.real, c.imag):
        if p != p or p in (float("inf"), float("-inf")):
            raise OutOfDomain("non-finite")
    return V("complex", mpc(c.real, c.imag), 0)


PI = None


def pi():
    # the implementation uses the double nearest to pi
    import math
    return V("real", mpf(math.pi), 0)


def _rnd(x):
    return K * U * abs(x)


def _finite(x):
    if isinstance(x, int):
        return
    if not mp.isfinite(x):
        raise OutOfDomain("non-finite result")
    if abs(x) > mpf("1e300"):
        raise OutOfDomain("overflow range")
    if x != 0 and abs(x) < mpf("1e-290"):
        raise OutOfDomain("underflow range")


def _join_kind(a, b):
    if "complex" in (a.kind, b.kind):
        return "complex"
    if "real" in (a.kind, b.kind):
        return "real"
    return "int"


def neg(a):
    if a.kind == "int":
        return V("int", -a.v) if _big(a) else from_int(-a.v)
    return V(a.kind, -a.v, a.err)


def add(a, b, sub=False):
    _no_big(a, b)
    if a.kind == "int" and b.kind == "int":
        return from_int(a.v - b.v if sub else a.v + b.v)
    k = _join_kind(a, b)
    r = a.as_mp() - b.as_mp() if sub else a.as_mp() + b.as_mp()
    _finite(r)
    return V(k, r, a.err + b.err + _rnd(r) + _conv(a) + _conv(b))


def _conv(a):
    # converting an int beyond 2**53 to double rounds
    if a.kind == "int" and abs(a.v) > 2 ** 53:
        return _rnd(a.v)
    return 0


def mul(a, b):
    _no_big(a, b)
    if a.kind == "int" and b.kind == "int":
        return from_int(a.v * b.v)
    k = _join_kind(a, b)
    r = a.as_mp() * b.as_mp()
    _finite(r)
    ea, eb = a.err + _conv(a), b.err + _conv(b)
    return V(k, r, a.mag * eb + b.mag * ea + ea * eb + _rnd(r))


def div(a, b):
    _no_big(a, b)
    # true division, also for integers; implemented as a * b**-1 (two roundings)
    if b.mag == 0:
        raise OutOfDomain("division by zero")
    k = _join_kind(a, b)
    if k == "int":
        k = "real"
    bm = b.as_mp()
    r = a.as_mp() / bm
    _finite(r)
    ea, eb = a.err + _conv(a), b.err + _conv(b)
    if eb >= b.mag / 2:
        raise OutOfDomain("divisor not separated from zero")
    e = (ea + abs(r) * eb) / (b.mag - eb) + 3 * _rnd(r)
    return V(k, r, e)


def power(a, b):
    _no_big(a, b)
    if a.kind == "int" and b.kind == "int":
        if b.v < 0:
            raise OutOfDomain("int ** negative int")
        if b.v > 4096:
            raise OutOfDomain("huge exponent")
        if abs(a.v) > 1 and b.v * max(abs(a.v).bit_length() - 1, 1) > 70:
            raise OutOfDomain("int64 range")
        return from_int(a.v ** b.v)
    k = _join_kind(a, b)
    am, bm = a.as_mp(), b.as_mp()
    if a.mag == 0:
        # 0 ** x: defined for real x > 0
        if b.kind == "complex" or bm <= 0:
            raise OutOfDomain("0 ** non-positive")
        if a.err != 0:
            raise OutOfDomain("inexact zero base")
        return V(k, mpf(0) if k == "real" else mpc(0), 0)
    if k == "real" and am < 0:
        # negative real base: only exponents that are exact integers keep the result real
        if not (b.kind == "int" or (b.err == 0 and bm == mp.floor(bm))):
            raise OutOfDomain("negative base with non-integer exponent")
    if k == "complex" and b.kind != "int":
        # principal branch: keep away from the cut (negative real axis)
        z = mpc(am)
        if z.real < 0 and abs(z.imag) <= 1e-6 * abs(z):
            raise OutOfDomain("complex power near branch cut")
    r = mp.power(am, bm)
    _finite(r)
    ea, eb = a.err + _conv(a), b.err + _conv(b)
    la = abs(mp.log(mpc(am)))
    rel = abs(bm) * ea / a.mag + la * eb + (abs(bm) * la + 2) * K * U * 4
    if rel > mpf("0.01"):
        raise OutOfDomain("ill-conditioned power")
    return V(k, r, abs(r) * rel)


# function table: name -> (mp function, derivative magnitude, domain check)
def _dom_all(x):
    return True


_FUNCS = {
    "sin": (lambda x: mp.sin(x), lambda x: abs(mp.cos(x)), _dom_all),
    "cos": (lambda x: mp.cos(x), lambda x: abs(mp.sin(x)), _dom_all),
    "tan": (lambda x: mp.tan(x), lambda x: 1 / mp.cos(x) ** 2, lambda x: abs(mp.cos(x)) > mpf("1e-3")),
    "arcsin": (lambda x: mp.asin(x), lambda x: 1 / mp.sqrt(1 - x * x), lambda x: abs(x) <= mpf("0.999")),
    "arccos": (lambda x: mp.acos(x), lambda x: 1 / mp.sqrt(1 - x * x), lambda x: abs(x) <= mpf("0.999")),
    "arctan": (lambda x: mp.atan(x), lambda x: 1 / (1 + x * x), _dom_all),
    "sinh": (lambda x: mp.sinh(x), lambda x: mp.cosh(x), lambda x: abs(x) < 600),
    "cosh": (lambda x: mp.cosh(x), lambda x: abs(mp.sinh(x)), lambda x: abs(x) < 600),
    "tanh": (lambda x: mp.tanh(x), lambda x: 1 / mp.cosh(x) ** 2, _dom_all),
    "arcsinh": (lambda x: mp.asinh(x), lambda x: 1 / mp.sqrt(1 + x * x), _dom_all),
    "arccosh": (lambda x: mp.acosh(x), lambda x: 1 / mp.sqrt(x * x - 1), lambda x: x >= mpf("1.001")),
    "arctanh": (lambda x: mp.atanh(x), lambda x: 1 / (1 - x * x), lambda x: abs(x) <= mpf("0.999")),
    "sqrt": (lambda x: mp.sqrt(x), lambda x: 1 / (2 * mp.sqrt(x)), lambda x: x >= mpf("1e-6")),
    "log": (lambda x: mp.log(x), lambda x: 1 / x, lambda x: x >= mpf("1e-6")),
    "exp": (lambda x: mp.exp(x), lambda x: mp.exp(x), lambda x: abs(x) < 600),
}

FUNCTION_NAMES = sorted(_FUNCS)


def func(name, a):
    _no_big(a)
    f, d, dom = _FUNCS[name]
    if a.kind == "complex":
        # complex arguments well away from both axes (every branch cut of these functions lies on an axis) and of moderate size
        z = a.as_mp()
        m_ = max(mpf(1), abs(z))
        if abs(z.imag) < mpf("0.02") * m_ or abs(z.real) < mpf("0.02") * m_ or abs(z) > 20:
            raise OutOfDomain("complex function argument near an axis or large")
        r = f(z)
        _finite(r)
        dm = abs(d(z))
        if not mp.isfinite(dm) or dm > mpf("1e4") or abs(r) < mpf("1e-6"):
            raise OutOfDomain("complex function argument near a singular point or zero")
        return V("complex", mpc(r), 2 * dm * (a.err + _conv(a)) + 16 * _rnd(r))
    x = a.as_mp()
    ea = a.err + _conv(a)
    if not dom(x) or (ea and (not dom(x - 2 * ea) or not dom(x + 2 * ea))):
        raise OutOfDomain("outside the real domain of %s" % name)
    r = f(x)
    _finite(r)
    dmax = max(abs(d(x)), abs(d(x - ea)), abs(d(x + ea))) if ea else abs(d(x))
    # library functions: a few ulps of the result; argument reduction error for large trig arguments
    e = 2 * dmax * ea + 4 * _rnd(r)
    if name in ("sin", "cos", "tan"):
        e += dmax * _rnd(x)
    return V("real", r, e)


def cast(vtype, a):
    """Value stored for a declared scalar of type vtype initialised with a (type-compatible)."""
    if vtype == "int":
        if a.kind != "int":
            raise OutOfDomain("int variable with non-int initialiser")
        return a
    if vtype == "float":
        if a.kind == "complex":
            raise OutOfDomain("float variable with complex initialiser")
        if a.kind == "int":
            return V("real", mpf(a.v), _conv(a))
        return a
    if vtype == "complex":
        if a.kind == "int":
            return V("complex", mpc(a.v), _conv(a))
        if a.kind == "real":
            return V("complex", mpc(a.v), a.err)
        return a
    raise ValueError(vtype)


def close(ref_v, actual, rtol=1e-12):
    """actual (python/numpy number) within rtol of the reference (absolute err bound added)."""
    try:
        if isinstance(actual, complex) or (hasattr(actual, "imag") and getattr(actual, "imag") != 0):
            act = mpc(complex(actual).real, complex(actual).imag)
        else:
            act = mpf(float(actual)) if not isinstance(actual, int) else mpf(actual)
    except (TypeError, ValueError, OverflowError):
        return False
    if not mp.isfinite(act):
        return False
    r = ref_v.as_mp()
    return abs(act - r) <= mpf(rtol) * abs(r) + ref_v.err

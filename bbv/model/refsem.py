"""Reference semantics: model script -> the program it denotes (independent of the package).

Values:
  numeric      -> numeric.V  (exact ints; reals/complex with error bound)
  RStr / RBool -> strings and booleans
  RList        -> keyword list values
  RArray       -> declared arrays (rows of values)
  RSym         -> value depending on template parameters / measured registers (a closure
                  over the surface expression and the environment at that point)
  RPName       -> name of a tdm p-array passed by name
"""
from dataclasses import dataclass, field
from typing import Any, List, Optional, Dict
import re

from . import ast as A
from . import numeric as N
from .numeric import V, OutOfDomain


class RefModelError(Exception):
    """The model is not a valid script for the reference semantics (generator defect)."""


@dataclass(frozen=True)
class RStr:
    s: str


@dataclass(frozen=True)
class RBool:
    b: bool


@dataclass
class RList:
    items: List[Any]


@dataclass
class RArray:
    vtype: str
    rows: List[List[Any]]      # V or RSym

    @property
    def shape(self):
        return (len(self.rows), len(self.rows[0]) if self.rows else 0)

    def flat(self):
        return [x for r in self.rows for x in r]

    def symbolic(self):
        return any(isinstance(x, RSym) for x in self.flat())


@dataclass
class RSym:
    expr: Any                  # A.Flat (or an A.Param for array elements)
    env: Dict[str, Any]
    syms: frozenset            # {('p', name), ('r', int)}
    vtype: Optional[str] = None    # declared type when it is a scalar variable (no cast is applied)

    def eval(self, beta):
        return ev(self.expr, self.env, beta)


class RSymBound(RSym):
    """A symbolic value of an included template whose parameters are bound to values that are
    themselves symbolic in the including program (e.g. wrap: sub(a={w}*2))."""

    def __init__(self, inner, bindings):
        syms = set()
        for v in bindings.values():
            if isinstance(v, RSym):
                syms |= set(v.syms)
        super().__init__(expr=None, env={}, syms=frozenset(syms), vtype=None)
        self.inner = inner
        self.bindings = bindings

    def eval(self, beta):
        b2 = {}
        for k, v in self.bindings.items():
            b2[k] = v.eval(beta) if isinstance(v, RSym) else v
        return self.inner.eval(b2)


@dataclass(frozen=True)
class RPName:
    name: str


@dataclass
class RefOp:
    op: str
    args: Optional[List[Any]]
    kwargs: Optional[List[Any]]      # list of (key, value)
    modes: List[int]


@dataclass
class RefProgram:
    name: str
    version: str
    target: Any = None               # (name, [(k, v)]) ; name None when absent
    ptype: Any = None
    ops: List[RefOp] = field(default_factory=list)
    variables: Dict[str, Any] = field(default_factory=dict)
    params: set = field(default_factory=set)
    stats: Dict[str, int] = field(default_factory=dict)

    @property
    def modes(self):
        s = set()
        for o in self.ops:
            s |= set(o.modes)
        return s


# ------------------------------------------------------------------ expression evaluation

def syms_of(x, env):
    """Free template parameters / registers of a surface expression under env."""
    out = set()
    if isinstance(x, A.Flat):
        for p in A.walk_prims(x):
            if isinstance(p, A.Param):
                out.add(("p", p.name))
            elif isinstance(p, A.Reg):
                out.add(("r", int(p.text[1:])))
            elif isinstance(p, A.Var):
                v = env.get(p.name)
                if isinstance(v, RSym):
                    out |= v.syms
            elif isinstance(p, A.Idx):
                v = env.get(p.name)
                if isinstance(v, RArray):
                    # conservative: resolved precisely in ev(); here we need the static index
                    pass
    elif isinstance(x, A.Param):
        out.add(("p", x.name))
    return out


def _sym_const(v, beta):
    """A non-integer constant inside a symbolic expression (beta non-empty: the expression is being evaluated at a sample point)
    reaches the symbolic back end as a 15-significant-digit decimal (SymPy prints Floats that way when it generates the
    function), i.e. with a relative error of up to 5e-15: the reference carries 1e-14 |c| as its error bound."""
    if beta and isinstance(v, V) and v.kind != "int":
        return V(v.kind, v.v, v.err + N.mpf("1e-14") * abs(v.v))
    return v


def _sym_node(res, beta, l=None, r=None):
    """The symbolic back end re-associates sums and products and folds their numeric parts into one constant, which it
    then prints with 15 digits: any partial sum of the terms of a +/- chain can be such a constant. At a sample point
    (beta non-empty) every +/- node therefore adds 1e-14 (|left| + |right|) to the error bound and every other node
    1e-14 |result| (integer results of integer operands stay exact)."""
    if not beta or not isinstance(res, V) or res.kind == "int":
        return res
    extra = N.mpf("1e-14") * ((l.mag + r.mag) if l is not None else abs(res.v))
    return V(res.kind, res.v, res.err + extra)


def ev(x, env, beta=None):
    """Evaluate a surface expression / tree node to a value."""
    beta = beta or {}
    if isinstance(x, A.Flat):
        if len(x.operands) == 1 and not x.operands[0].signs:
            return ev(x.operands[0].prim, env, beta)
        return ev(A.tree(x), env, beta)
    if isinstance(x, A.Num):
        if x.kind == "int":
            return N.from_int_literal(int(x.text))
        if x.kind == "float":
            return _sym_const(N.from_float_text(x.text), beta)
        if x.kind == "complex":
            return _sym_const(N.from_complex(complex(x.text)), beta)
        if x.kind == "pi":
            return _sym_const(N.pi(), beta)
        raise RefModelError("bad literal kind %s" % x.kind)
    if isinstance(x, A.Var):
        if x.name not in env:
            raise RefModelError("undefined name %s" % x.name)
        v = env[x.name]
        if isinstance(v, RSym):
            return _need_num(v.eval(beta))
        return _sym_const(v, beta)
    if isinstance(x, A.Reg):
        key = ("r", int(x.text[1:]))
        if key not in beta:
            raise Unbound(key)
        return beta[key]
    if isinstance(x, A.Param):
        key = ("p", x.name)
        if key not in beta:
            raise Unbound(key)
        return beta[key]
    if isinstance(x, A.Idx):
        arr = env.get(x.name)
        if not isinstance(arr, RArray):
            raise RefModelError("indexing non-array %s" % x.name)
        k = ev(x.index, env, beta)
        if not (isinstance(k, V) and k.kind == "int"):
            raise RefModelError("non-integer index")
        flat = arr.flat()
        if not 0 <= k.v < len(flat):
            raise RefModelError("index out of range")
        el = flat[k.v]
        if isinstance(el, RSym):
            return _need_num(el.eval(beta))
        return _sym_const(el, beta)
    if isinstance(x, A.Paren):
        return ev(x.e, env, beta)
    if isinstance(x, A.Fn):
        return _sym_node(N.func(x.name, _need_num(ev(x.e, env, beta))), beta)
    if isinstance(x, A.TSign):
        v = _need_num(ev(x.e, env, beta))
        return N.neg(v) if x.op == "-" else v
    if isinstance(x, A.TBin):
        lv, rv = ev(x.l, env, beta), ev(x.r, env, beta)
        if isinstance(lv, RArray) and isinstance(rv, RArray) and x.op in ("+", "-"):
            # elementwise sum/difference of two equally shaped numeric arrays (the only whole-array arithmetic generated)
            if lv.shape != rv.shape or lv.symbolic() or rv.symbolic():
                raise RefModelError("array arithmetic on unequal or symbolic arrays")
            order = {"int": 0, "float": 1, "complex": 2}
            vt = lv.vtype if order[lv.vtype] >= order[rv.vtype] else rv.vtype
            rows = [[N.cast(vt, N.add(a, b, sub=(x.op == "-"))) for a, b in zip(ra, rb)] for ra, rb in zip(lv.rows, rv.rows)]
            return RArray(vt, rows)
        l = _need_num(lv)
        r = _need_num(rv)
        if x.op == "+":
            return _sym_node(N.add(l, r), beta, l, r)
        if x.op == "-":
            return _sym_node(N.add(l, r, sub=True), beta, l, r)
        if x.op == "*":
            return _sym_node(N.mul(l, r), beta)
        if x.op == "/":
            return _sym_node(N.div(l, r), beta)
        if x.op == "**":
            return _sym_node(N.power(l, r), beta)
    raise RefModelError("cannot evaluate %r" % (x,))


class Unbound(Exception):
    def __init__(self, key):
        super().__init__(str(key))
        self.key = key


def _need_num(v):
    if not isinstance(v, V):
        raise RefModelError("arithmetic on non-numeric value %r" % (v,))
    return v


def free_syms(x, env):
    """Exact set of symbols an expression depends on (follows variables and static indices)."""
    out = set()

    def prim(p):
        if isinstance(p, A.Param):
            out.add(("p", p.name))
        elif isinstance(p, A.Reg):
            out.add(("r", int(p.text[1:])))
        elif isinstance(p, A.Var):
            v = env.get(p.name)
            if isinstance(v, RSym):
                out.update(v.syms)
        elif isinstance(p, A.Idx):
            flat(p.index)
            arr = env.get(p.name)
            if isinstance(arr, RArray) and arr.symbolic():
                try:
                    k = ev(p.index, env, {})
                    el = arr.flat()[k.v]
                    if isinstance(el, RSym):
                        out.update(el.syms)
                except (Unbound, OutOfDomain, RefModelError, AttributeError, IndexError):
                    for el in arr.flat():
                        if isinstance(el, RSym):
                            out.update(el.syms)
        elif isinstance(p, (A.Paren, A.Fn)):
            flat(p.e)

    def flat(f):
        for o in f.operands:
            prim(o.prim)

    if isinstance(x, A.Flat):
        flat(x)
    return out


def value_of(val, env, tdm_pnames=()):
    """Value of an argument (Flat | Str | Bool | ListVal)."""
    if isinstance(val, A.Str):
        return RStr(val.text)
    if isinstance(val, A.Bool):
        return RBool(val.value)
    if isinstance(val, A.ListVal):
        return RList([value_of(i, env, tdm_pnames) for i in val.items])
    if isinstance(val, A.Flat):
        # a variable naming a tdm p-array (also written (p0), ((p0)) or +p0): passed by name
        inner = val
        while isinstance(inner, A.Flat) and len(inner.operands) == 1 and set(inner.operands[0].signs) <= {"+"}:
            prim = inner.operands[0].prim
            if isinstance(prim, A.Paren):
                inner = prim.e
                continue
            if isinstance(prim, A.Var) and prim.name in tdm_pnames:
                return RPName(prim.name)
            break
        s = free_syms(val, env)
        if s:
            return RSym(val, dict(env), frozenset(s))
        return ev(val, env, {})
    raise RefModelError("unknown value node %r" % (val,))


def args_of(args, env, tdm_pnames=()):
    if args is None:
        return None, None
    pos = [value_of(v, env, tdm_pnames) for v in args.pos]
    kw = [(k, value_of(v, env, tdm_pnames)) for k, v in args.kwargs]
    return pos, kw


_PNAME = re.compile(r"^p[0-9]+$")


def run(script, includes=None):
    """Reference program of a valid script.  includes: name -> RefProgram of included scripts."""
    includes = includes or {}
    prog = RefProgram(script.name, script.version)
    env = {}
    for kw, meta in (("target", script.target), ("ptype", script.ptype)):
        if meta is None:
            setattr(prog, kw, (None, []))
        else:
            _, kws = args_of(meta.args, {}) if meta.args is not None else (None, [])
            setattr(prog, kw, (meta.name, kws or []))
    tdm = script.ptype is not None and script.ptype.name == "tdm"
    pnames = set()

    def add_params(syms):
        for k, n in syms:
            if k == "p":
                prog.params.add(n)

    def do_stmt(st):
        modes = []
        for m in st.modes:
            v = ev(m, env, {})
            if not (isinstance(v, V) and v.kind == "int"):
                raise RefModelError("non-integer mode")
            N._no_big(v)
            modes.append(v.v)
        pos, kw = args_of(st.args, env, pnames)
        for v in (pos or []) + [x for _, x in (kw or [])]:
            for s in _syms_in(v):
                add_params(s)
        if st.op in includes:
            inc = includes[st.op]
            prog.ops.extend(expand_include(inc, modes, pos, kw))
            return
        prog.ops.append(RefOp(st.op, pos, kw, modes))

    for it in script.items:
        if isinstance(it, A.ScalarDecl):
            if isinstance(it.init, A.Flat):
                s = free_syms(it.init, env)
                if s:
                    env[it.name] = RSym(it.init, dict(env), frozenset(s), it.vtype)
                    add_params(s)
                else:
                    v = ev(it.init, env, {})
                    if isinstance(v, V):
                        env[it.name] = N.cast(it.vtype, v)
                    else:
                        env[it.name] = v
            else:
                env[it.name] = value_of(it.init, env)
        elif isinstance(it, A.ArrayDecl):
            rows = []
            for row in it.rows:
                r = []
                for e in row:
                    s = free_syms(e, env)
                    if s:
                        r.append(RSym(e, dict(env), frozenset(s)))
                        add_params(s)
                    else:
                        el_ = _need_num(ev(e, env, {}))
                        N._no_big(el_)          # array elements are 64-bit
                        r.append(N.cast(it.vtype, el_))
                rows.append(r)
            env[it.name] = RArray(it.vtype, rows)
            if tdm and _PNAME.match(it.name):
                pnames.add(it.name)
        elif isinstance(it, A.ArrayParamDecl):
            r, c = int(it.shape[0]), int(it.shape[1])
            rows = []
            for i in range(r):
                row = []
                for j in range(c):
                    nm = "%s_%d_%d" % (it.pname, i, j)
                    row.append(RSym(A.Param(nm), {}, frozenset([("p", nm)])))
                    prog.params.add(nm)
                rows.append(row)
            env[it.name] = RArray(it.vtype, rows)
            if tdm and _PNAME.match(it.name):
                pnames.add(it.name)
        elif isinstance(it, A.Stmt):
            do_stmt(it)
        elif isinstance(it, A.For):
            for val in loop_values(it, env):
                env[it.var] = val
                for st in it.body:
                    do_stmt(st)
            env.pop(it.var, None)
        else:
            raise RefModelError("unknown item")
    prog.variables = env
    return prog


def _syms_in(v):
    if isinstance(v, RSym):
        yield v.syms
    elif isinstance(v, RList):
        for i in v.items:
            yield from _syms_in(i)
    elif isinstance(v, RArray):
        for i in v.flat():
            yield from _syms_in(i)


def loop_values(loop, env):
    h = loop.header
    out = []
    if isinstance(h, A.Range):
        a, b = int(h.a), int(h.b)
        c = int(h.c) if h.c is not None else 1
        if c == 0:
            raise RefModelError("zero step")
        raw = [N.from_int_literal(i) for i in range(a, b, c)]
    else:
        raw = [value_of(v, env) for v in h.vals]
    for v in raw:
        if loop.vtype == "int":
            if not (isinstance(v, V) and v.kind == "int"):
                raise RefModelError("int loop over non-int")
            out.append(v)
        elif loop.vtype == "float":
            if not (isinstance(v, V) and v.kind in ("int", "real")):
                raise RefModelError("float loop over non-real")
            if v.kind == "int" and int(float(v.v)) != v.v:
                # an integer that a float cannot hold is not "of the loop type" (the loader refuses a conversion that changes the value)
                raise RefModelError("float loop over an integer that is not a float value")
            out.append(N.cast("float", v))
        elif loop.vtype == "bool":
            if not isinstance(v, RBool):
                raise RefModelError("bool loop over non-bool")
            out.append(v)
        elif loop.vtype == "str":
            if not isinstance(v, RStr):
                raise RefModelError("str loop over non-str")
            out.append(v)
        else:
            raise RefModelError("unsupported loop type")
    return out


def instantiate_value(v, beta):
    if isinstance(v, RSym):
        if any(isinstance(b, RSym) for b in beta.values()):
            used = {k: b for k, b in beta.items() if k in v.syms}
            if any(isinstance(b, RSym) for b in used.values()):
                return RSymBound(v, used)
            return v.eval(used)
        return v.eval(beta)
    if isinstance(v, RList):
        return RList([instantiate_value(i, beta) for i in v.items])
    if isinstance(v, RArray):
        return RArray(v.vtype, [[instantiate_value(x, beta) for x in r] for r in v.rows])
    return v


def expand_include(inc, modes, pos, kw):
    """Inline an included reference program at a call site."""
    inc_modes = sorted(inc.modes)
    if len(inc_modes) != len(modes):
        raise RefModelError("include arity")
    mm = dict(zip(inc_modes, modes))
    beta = {}
    if inc.params:
        if pos or kw is None or {k for k, _ in kw} != set(inc.params):
            raise RefModelError("include keywords")
        for k, v in kw:
            beta[("p", k)] = v
    elif pos or kw:
        raise RefModelError("arguments to non-template include")
    out = []
    for o in inc.ops:
        args = None if o.args is None else [instantiate_value(a, beta) for a in o.args]
        kwargs = None if o.kwargs is None else [(k, instantiate_value(a, beta)) for k, a in o.kwargs]
        out.append(RefOp(o.op, args, kwargs, [mm[m] for m in o.modes]))
    return out

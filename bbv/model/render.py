"""Model -> text.

The renderer emits *tokens* grouped into lines and joins them under a Layout plan; after
joining, every line is re-lexed with the reference lexer and must give back exactly the
intended token texts (this is how sign-swallowing COMPLEX, SEQUENCE, TAB/SPACE and
keyword-shaped names are handled by construction).  A line that fails the self-check is
re-joined with a space at every token boundary; if that fails too the model itself is
not expressible and RenderError is raised (a generator defect, never a violation).
"""
from dataclasses import dataclass, field
from typing import List, Optional, Dict

from . import ast as A
from .. import ref


class RenderError(Exception):
    pass


@dataclass
class Line:
    toks: List[str]
    indent: bool = False
    kind: str = "stmt"      # name version target type include scalar arrayhead arrayrow stmt forhead forbody
    tags: List[str] = field(default_factory=list)   # per token: role tags (same length as toks) or empty


@dataclass
class Layout:
    """Layout plan; every list is consumed cyclically."""
    gaps: List[int] = field(default_factory=lambda: [0])          # extra spaces at optional token boundaries
    newlines: List[str] = field(default_factory=lambda: ["\n"])   # per physical line ending
    indents: List[str] = field(default_factory=lambda: ["    "])  # per indented line
    eol_comments: Dict[int, str] = field(default_factory=dict)    # logical line index -> text after '#'
    eol_comment_space: List[int] = field(default_factory=lambda: [1])
    trailing: List[int] = field(default_factory=lambda: [0])      # spaces at line ends (0..3)
    blank_before: Dict[int, List[str]] = field(default_factory=dict)  # logical line index -> list of blank/comment line texts
    final_newline: bool = True
    blank_after_meta: int = 1                                      # blank lines between metadata and program
    pretty: bool = True


def expr_tokens(flat, out):
    for i, o in enumerate(flat.operands):
        if i:
            out.append(flat.ops[i - 1])
        for s in o.signs:
            out.append(s)
        prim_tokens(o.prim, out)
    return out


def prim_tokens(p, out):
    if isinstance(p, A.Num):
        out.append(p.text)
    elif isinstance(p, A.Var):
        out.append(p.name)
    elif isinstance(p, A.Reg):
        out.append(p.text)
    elif isinstance(p, A.Idx):
        out.extend([p.name, "["])
        expr_tokens(p.index, out)
        out.append("]")
    elif isinstance(p, A.Param):
        out.extend(["{", p.name, "}"])
    elif isinstance(p, A.Paren):
        out.append("(")
        expr_tokens(p.e, out)
        out.append(")")
    elif isinstance(p, A.Fn):
        out.extend([p.name, "("])
        expr_tokens(p.e, out)
        out.append(")")
    else:
        raise RenderError("unknown primary %r" % (p,))


def val_tokens(v, out):
    if isinstance(v, A.Flat):
        expr_tokens(v, out)
    elif isinstance(v, A.Str):
        out.append('"%s"' % v.text)
    elif isinstance(v, A.Bool):
        out.append("True" if v.value else "False")
    elif isinstance(v, A.ListVal):
        out.append("[")
        for i, x in enumerate(v.items):
            if i:
                out.append(",")
            val_tokens(x, out)
        out.append("]")
    else:
        raise RenderError("unknown value %r" % (v,))
    return out


def args_tokens(args, out):
    out.append("(")
    first = True
    for v in args.pos:
        if not first:
            out.append(",")
        val_tokens(v, out)
        first = False
    if args.pos and args.trailing_comma and not args.kwargs:
        out.append(",")
    for k, v in args.kwargs:
        if not first:
            out.append(",")
        out.extend([k, "="])
        val_tokens(v, out)
        first = False
    out.append(")")
    return out


def stmt_tokens(st):
    out = [st.op]
    if st.args is not None:
        args_tokens(st.args, out)
    out.append("|")
    if st.lbr:
        out.append(st.lbr)
    for i, m in enumerate(st.modes):
        if i:
            out.append(",")
        expr_tokens(m, out)
    if st.rbr:
        out.append(st.rbr)
    return out


def meta_tokens(kw, meta):
    out = [kw, meta.name]
    if meta.args is not None:
        args_tokens(meta.args, out)
    return out


def decl_head(vtype, name, shape):
    out = [vtype, "array", name]
    if shape is not None:
        out.append("[")
        for i, s in enumerate(shape):
            if i:
                out.append(",")
            out.append(s)
        out.append("]")
    out.append("=")
    return out


def lines(script):
    """Logical lines of a script, in order. Returns (lines, n_meta_lines)."""
    L = [Line(["name", script.name], kind="name"), Line(["version", script.version], kind="version")]
    if script.target is not None:
        L.append(Line(meta_tokens("target", script.target), kind="target"))
    if script.ptype is not None:
        L.append(Line(meta_tokens("type", script.ptype), kind="type"))
    for inc in script.includes:
        L.append(Line(["include", '"%s"' % inc], kind="include"))
    nmeta = len(L)
    for it in script.items:
        if isinstance(it, A.ScalarDecl):
            L.append(Line(val_tokens(it.init, [it.vtype, it.name, "="]), kind="scalar"))
        elif isinstance(it, A.ArrayDecl):
            L.append(Line(decl_head(it.vtype, it.name, it.shape), kind="arrayhead"))
            for row in it.rows:
                toks = []
                for i, e in enumerate(row):
                    if i:
                        toks.append(",")
                    expr_tokens(e, toks)
                L.append(Line(toks, indent=True, kind="arrayrow"))
        elif isinstance(it, A.ArrayParamDecl):
            L.append(Line(decl_head(it.vtype, it.name, it.shape), kind="arrayhead"))
            L.append(Line(["{", it.pname, "}"], indent=True, kind="arrayrow"))
        elif isinstance(it, A.Stmt):
            L.append(Line(stmt_tokens(it), kind="stmt"))
        elif isinstance(it, A.For):
            toks = ["for", it.vtype, it.var, "in"]
            h = it.header
            if isinstance(h, A.Range):
                toks.extend([h.a, ":", h.b])
                if h.c is not None:
                    toks.extend([":", h.c])
            else:
                if h.lbr:
                    toks.append(h.lbr)
                for i, v in enumerate(h.vals):
                    if i:
                        toks.append(",")
                    val_tokens(v, toks)
                if h.rbr:
                    toks.append(h.rbr)
            L.append(Line(toks, kind="forhead"))
            for st in it.body:
                L.append(Line(stmt_tokens(st), indent=True, kind="forbody"))
        else:
            raise RenderError("unknown item %r" % (it,))
    return L, nmeta


_WORDS = {"name", "version", "target", "type", "include", "for", "in", "int", "float", "complex",
          "bool", "str", "array"}


def _pretty_gap(a, b, line, idx):
    """Minimum pretty gap between tokens a and b (0 or 1)."""
    if a == ",":
        return 1
    if a == "|" or b == "|":
        return 1
    if line.kind in ("scalar", "arrayhead") and (a == "=" or b == "="):
        return 1
    if line.kind in ("scalar", "arrayhead", "forhead", "name", "version", "target", "type", "include") and idx <= 4:
        if a in _WORDS or b in ("in",):
            return 1
    if line.kind in ("target", "type") and b == "(" and idx == 2:
        return 1
    return 0


def _join(line, gaps, gi, pretty):
    parts = []
    for i, t in enumerate(line.toks):
        if i:
            g = gaps[gi % len(gaps)]
            gi += 1
            if pretty:
                g = max(g, _pretty_gap(line.toks[i - 1], t, line, i))
            parts.append(" " * g)
        parts.append(t)
    return "".join(parts), gi


def _lex_texts(s):
    return [t.text for t in ref.lexer().tokens(s)[:-1]]


def join_line(line, gaps, gi, pretty=True):
    """Join one logical line; returns (text, next gap index, repaired?)."""
    n = len(line.toks)
    g = []
    for i in range(1, n):
        x = gaps[gi % len(gaps)]
        gi += 1
        if pretty:
            x = max(x, _pretty_gap(line.toks[i - 1], line.toks[i], line, i))
        g.append(x)
    repaired = False
    for _ in range(n + 1):
        parts = [line.toks[0]] if n else []
        bounds = []
        pos = len(parts[0]) if n else 0
        for i in range(1, n):
            bounds.append(pos)           # end of token i-1
            parts.append(" " * g[i - 1])
            parts.append(line.toks[i])
            pos += g[i - 1] + len(line.toks[i])
        text = "".join(parts)
        lexed = ref.lexer().tokens(text)[:-1]
        if [t.text for t in lexed] == line.toks:
            return text, gi, repaired
        ends = {t.stop + 1 for t in lexed}
        fixed = False
        for i, b in enumerate(bounds):
            if b not in ends and g[i] == 0:
                g[i] = 1
                fixed = True
                repaired = True
                break
        if not fixed:
            break
    raise RenderError("line not expressible: %r" % (line.toks,))


def render(script, layout=None, stats=None):
    lay = layout or Layout()
    L, nmeta = lines(script)
    out = []
    gi = 0
    nl_i = 0
    ind_i = 0
    tr_i = 0
    cs_i = 0

    def nl():
        nonlocal nl_i
        s = lay.newlines[nl_i % len(lay.newlines)]
        nl_i += 1
        return s

    last_kind = None
    for idx, line in enumerate(L):
        extra = list(lay.blank_before.get(idx, []))
        if idx == nmeta and lay.blank_after_meta:
            extra = [""] * lay.blank_after_meta + extra
        if extra and (line.indent and line.kind == "arrayrow"):
            extra = []   # never inside array bodies
        if extra and line.kind == "forbody" and last_kind == "forhead":
            extra = []   # never between a loop header and its first body line
        for b in extra:
            out.append(b)
            out.append(nl())
        text, gi, repaired = join_line(line, lay.gaps, gi, lay.pretty)
        if repaired and stats is not None:
            stats["render_repaired_lines"] = stats.get("render_repaired_lines", 0) + 1
        if line.indent:
            out.append(lay.indents[ind_i % len(lay.indents)])
            ind_i += 1
        out.append(text)
        if idx in lay.eol_comments:
            out.append(" " * lay.eol_comment_space[cs_i % len(lay.eol_comment_space)])
            cs_i += 1
            out.append("#" + lay.eol_comments[idx])
        else:
            out.append(" " * lay.trailing[tr_i % len(lay.trailing)])
            tr_i += 1
        last = idx == len(L) - 1
        if not last or lay.final_newline or line.kind == "arrayrow" or lay.blank_before.get(len(L)):
            out.append(nl())
        last_kind = line.kind
    tail = list(lay.blank_before.get(len(L), []))
    for i, b in enumerate(tail):
        out.append(b)
        if i < len(tail) - 1 or lay.final_newline:
            out.append(nl())
    return "".join(out)

"""Hypothesis strategies constructing valid script models (see DESIGN.md 3.3 for the domain)."""
import keyword
from dataclasses import dataclass, field
from typing import List, Dict, Optional

from hypothesis import strategies as st

from . import ast as A
from .. import ref

# ------------------------------------------------------------------ names

_NAME_POOL = ["a", "ab", "b", "e", "p0", "p1", "p12", "x", "y", "z", "n", "k", "alpha", "phi", "r", "E", "I", "e1", "a_1", "x2", "Sq",
              "theta", "U", "pa", "px1", "qq", "q", "p", "pp0", "in_", "for_", "arr", "A", "B", "A1", "N", "S", "pi2",
              "sinx", "Truex", "Measur", "names", "typ", "O", "Q", "j", "J", "e5", "E3", "j2"]
_OP_POOL = ["Sgate", "BSgate", "Vac", "Dgate", "Rgate", "G", "Coherent", "Interferometer", "Xgate", "Zgate", "S2gate",
            "H", "ops_1", "CXgate", "Fock", "Gaussian", "Kgate", "Vgate"]
_MEASURE_POOL = ["Measure", "MeasureX", "MeasureP", "MeasureFock", "MeasureHomodyne", "MeasureHeterodyne", "Measureabc",
                 "MeasureHD", "MeasureZz"]
_ALNUM = "abcdefghijklmnopqrstuvwxyzABCDEFGHIJKLMNOPQRSTUVWXYZ"
_ALNUM_ = _ALNUM + "0123456789_"


def _is_name(s):
    return ref.lexer().full_match(s) == "NAME"


@st.composite
def raw_name(draw, max_len=6):
    first = draw(st.sampled_from(_ALNUM))
    if draw(st.integers(0, 19)) == 0:
        max_len = 48          # occasionally a long identifier
    rest = draw(st.text(alphabet=_ALNUM_, max_size=max_len - 1))
    return first + rest


# names that mean something to Python, NumPy or SymPy when text is (wrongly) re-interpreted
_RISKY_NAMES = ["j", "J", "inf", "nan", "Infinity", "e", "E", "I", "pi2", "None", "lambda", "oo", "zoo", "S", "N", "p0_offset", "p12b", "p1a",
                "array2", "intx", "q", "qa", "Measur", "x_0_0", "a_0_1", "q0_gain", "q1x", "q12scale", "q0q", "q2_"]


def name_strategy(pool=_NAME_POOL):
    return st.one_of(st.sampled_from(pool), st.sampled_from(pool), st.sampled_from(_RISKY_NAMES), raw_name()).filter(_is_name)


def ident(for_param=False):
    s = name_strategy()
    if for_param:
        s = s.filter(lambda n: not keyword.iskeyword(n) and not n.startswith("_"))
    return s


def op_name():
    return st.one_of(st.sampled_from(_OP_POOL), raw_name(8)).filter(_is_name)


def measure_name():
    return st.one_of(st.sampled_from(_MEASURE_POOL),
                     st.text(alphabet=_ALNUM, max_size=6).map(lambda s: "Measure" + s))


def device_name():
    return st.one_of(
        st.sampled_from(["X8_01", "gaussian", "fock", "chip0", "X8.1", "8X", "1.0.1", "a.b_c", "TD3_fake", "0x", "X12"]),
        st.text(alphabet=_ALNUM_ + ".", min_size=1, max_size=6),
    ).filter(lambda s: ref.lexer().full_match(s) in ("NAME", "DEVICE"))


# ------------------------------------------------------------------ literals

_DIG = "0123456789"


@st.composite
def int_lexeme(draw, small=True, maxv=None):
    if maxv is not None:
        v = draw(st.integers(0, maxv))
    elif small:
        v = draw(st.one_of(st.integers(0, 9), st.integers(0, 40)))
    else:
        v = draw(st.one_of(st.integers(0, 9), st.integers(0, 1000), st.integers(0, 10 ** 9), st.integers(0, 2 ** 62)))
    zeros = draw(st.sampled_from(["", "", "", "", "0", "00"]))
    return zeros + str(v)


@st.composite
def real_lexeme(draw, positive_only=True, moderate=True):
    """A FLOAT lexeme (REAL that is not a pure DIGIT run)."""
    ip = draw(st.one_of(st.integers(0, 9), st.integers(0, 9), st.integers(0, 99), st.integers(0, 999)))
    lead = draw(st.sampled_from(["", "", "", "0"]))
    form = draw(st.sampled_from(["frac", "frac", "frac", "exp", "fracexp"]))
    s = lead + str(ip)
    if form in ("frac", "fracexp"):
        s += "." + draw(st.text(alphabet=_DIG, min_size=1, max_size=draw(st.sampled_from([1, 2, 4, 17]))))
    if form in ("exp", "fracexp"):
        e = draw(st.integers(0, 5)) if moderate else draw(st.integers(0, 30))
        sign = draw(st.sampled_from(["", "+", "-"]))
        s += draw(st.sampled_from("eE")) + sign + draw(st.sampled_from(["", "0"])) + str(e)
    return s


@st.composite
def number_lexeme(draw):
    """NUMBER fragment: REAL or DIGIT."""
    return draw(st.one_of(int_lexeme(), real_lexeme()))


@st.composite
def complex_lexeme(draw, allow_lead_sign=True):
    lead = draw(st.sampled_from(["", "", "", "+", "-"])) if allow_lead_sign else ""
    re_part = ""
    if draw(st.booleans()):
        re_part = draw(number_lexeme()) + draw(st.sampled_from("+-"))
    return lead + re_part + draw(number_lexeme()) + draw(st.sampled_from("jjJ"))


@st.composite
def tiny_complex(draw):
    """Complex literal whose imaginary (or real) part is tiny or huge relative to the other."""
    small = "%de-%d" % (draw(st.integers(1, 9)), draw(st.integers(13, 30)))
    other = draw(st.sampled_from(["", "1+", "0.5-", "2e3+", "0+"]))
    if draw(st.booleans()):
        return A.Num("complex", other + small + "j")
    return A.Num("complex", small + draw(st.sampled_from("+-")) + draw(st.sampled_from(["1", "0.5", "3e2"])) + "j")


def num_int(**kw):
    return int_lexeme(**kw).map(lambda t: A.Num("int", t))


def num_float(**kw):
    return real_lexeme(**kw).map(lambda t: A.Num("float", t))


def num_complex(**kw):
    return complex_lexeme(**kw).map(lambda t: A.Num("complex", t))


PI = A.Num("pi", "pi")

_STR_ALPHABET_ASCII = st.characters(min_codepoint=32, max_codepoint=126, exclude_characters='"')
_STR_ALPHABET_ANY = st.one_of(
    _STR_ALPHABET_ASCII,
    st.sampled_from(["\t", "é", "λ", "中", " ", "\U0001F600", "\\", "'", "#", "{", "}",
                     "\x0b", "\x0c", "\x1c", "\x1d", "\x1e", "\x85", "\u2028", "\u2029", "\xa0"]),
)


def str_text(ascii_only=True):
    plain = st.text(alphabet=_STR_ALPHABET_ASCII if ascii_only else _STR_ALPHABET_ANY, max_size=8)
    # characters that mean something outside a string: comment sign, brackets, keywords, indentation
    special = st.sampled_from(["#", "a#b", "# no comment", "x # y", "    ", "{p}", "for", "1,2", "p0", "name x", "a | 0", "=",
                                # strings whose content reads like another kind of literal
                                "True", "False", "1", "1.5", "2j", "1e3", "pi", "None", "q0", "[1, 2]", "-1", "0x1F", "nan", "inf"])
    return st.one_of(plain, plain, plain, plain, plain, plain, special)


# ------------------------------------------------------------------ expression context

@dataclass
class Ctx:
    ints: List[str] = field(default_factory=list)       # declared int scalars (numeric)
    floats: List[str] = field(default_factory=list)
    complexes: List[str] = field(default_factory=list)
    strs: List[str] = field(default_factory=list)
    bools: List[str] = field(default_factory=list)
    arrays: Dict[str, tuple] = field(default_factory=dict)   # name -> (vtype, rows, cols, symbolic)
    sym_scalars: List[str] = field(default_factory=list)     # scalars holding parameter expressions
    reg_scalars: List[str] = field(default_factory=list)     # scalars holding expressions over measured registers
    params: List[str] = field(default_factory=list)          # parameter names available for {p}
    regs: List[str] = field(default_factory=list)            # register lexemes available
    loopvar: Optional[tuple] = None                           # (name, vtype)
    loop_max: Optional[int] = None                            # largest value of an int loop variable when statically known
    used: set = field(default_factory=set)                    # all declared names (variables, loop vars)
    frozen: set = field(default_factory=set)                  # names that must not be redeclared
    names: Optional[list] = None                              # restricted pool for declared names / loop variables
    whole_array_odds: int = 3                                 # 1 in (n+1) symbolic arrays is the whole-array form {U}
    complex_coefficients: bool = False                        # complex literals inside parameter expressions
    array_elems: Dict[str, list] = field(default_factory=dict)  # name -> (vtype, flat list of element expressions)
    twins: list = field(default_factory=list)                  # (source, twin) array names with equal elements
    depth: int = 3
    ascii_only: bool = True

    def int_leaf_names(self):
        out = list(self.ints)
        if self.loopvar and self.loopvar[1] == "int":
            out.append(self.loopvar[0])
        return out

    def real_leaf_names(self):
        out = list(self.floats)
        if self.loopvar and self.loopvar[1] == "float":
            out.append(self.loopvar[0])
        return out


def F1(prim, signs=""):
    return A.Flat([A.Operand(signs, prim)], [])


@st.composite
def int_expr(draw, ctx, depth=None, nonneg=False):
    """Integer-valued expression: int leaves, + - * and ** with a small literal exponent."""
    depth = ctx.depth if depth is None else depth
    n = draw(st.sampled_from([1, 1, 1, 2, 2, 3])) if depth > 0 else 1
    operands, ops = [], []
    for i in range(n):
        if i:
            ops.append(draw(st.sampled_from(["+", "*", "+", "-", "**"] if not nonneg else ["+", "*", "**"])))
        small_exp = bool(ops) and ops[-1] == "**"
        operands.append(draw(_int_operand(ctx, depth, nonneg, small_exp)))
    return A.Flat(operands, ops)


@st.composite
def _int_operand(draw, ctx, depth, nonneg, small_exp):
    if small_exp:
        return A.Operand("", A.Num("int", str(draw(st.integers(0, 3)))))
    signs = "" if nonneg else draw(st.sampled_from(["", "", "", "", "-", "+", "--", "-+"]))
    if depth > 0 and draw(st.integers(0, 14)) == 0:
        # an integer power just below the int64 limit: b**e in [2**55, 2**63)
        b = draw(st.sampled_from([2, 3, 5, 6, 7, 10]))
        e = 1
        while b ** (e + 1) < 2 ** 63:
            e += 1
        e -= draw(st.integers(0, 2))
        return A.Operand(signs, A.Paren(A.Flat([A.Operand("", A.Num("int", str(b))), A.Operand("", A.Num("int", str(e)))], ["**"])))
    choices = ["lit", "lit"]
    if ctx.int_leaf_names():
        choices += ["var", "var"]
    int_arrays = [n for n, (t, r, c, sym) in ctx.arrays.items() if t == "int" and not sym]
    if int_arrays and depth > 0:
        choices.append("idx")
    if depth > 0:
        choices.append("paren")
    k = draw(st.sampled_from(choices))
    if k == "lit":
        return A.Operand(signs, draw(num_int()))
    if k == "var":
        return A.Operand(signs, A.Var(draw(st.sampled_from(ctx.int_leaf_names()))))
    if k == "idx":
        nm = draw(st.sampled_from(int_arrays))
        return A.Operand(signs, draw(index_of(ctx, nm, depth - 1)))
    return A.Operand(signs, A.Paren(draw(int_expr(ctx, depth - 1, nonneg))))


@st.composite
def index_of(draw, ctx, name, depth=0):
    t, r, c, sym = ctx.arrays[name]
    if ctx.loopvar and ctx.loopvar[1] == "int" and ctx.loop_max is not None and 0 <= ctx.loop_max < r * c and draw(st.integers(0, 2)) == 0:
        # the loop variable itself (or with an offset that stays in range) as row-major index
        off = draw(st.integers(0, r * c - 1 - ctx.loop_max))
        if off and draw(st.booleans()):
            return A.Idx(name, A.Flat([A.Operand("", A.Var(ctx.loopvar[0])), A.Operand("", A.Num("int", str(off)))], ["+"]))
        return A.Idx(name, F1(A.Var(ctx.loopvar[0])))
    k = draw(st.integers(0, r * c - 1))
    form = draw(st.sampled_from(["lit", "lit", "sum", "prod"])) if depth >= 0 else "lit"
    if form == "sum" and k > 0:
        a = draw(st.integers(0, k))
        e = A.Flat([A.Operand("", A.Num("int", str(a))), A.Operand("", A.Num("int", str(k - a)))], ["+"])
    elif form == "prod" and c > 1 and k % c == 0 and k > 0:
        e = A.Flat([A.Operand("", A.Num("int", str(k // c))), A.Operand("", A.Num("int", str(c)))], ["*"])
    else:
        e = F1(A.Num("int", str(k)))
    return A.Idx(name, e)


_REAL_FUNCS_ANY = ["sin", "cos", "arctan", "tanh", "arcsinh", "sinh", "cosh", "exp", "tan"]
_REAL_FUNCS_UNIT = ["arcsin", "arccos", "arctanh"]
_REAL_FUNCS_POS = ["sqrt", "log"]


@st.composite
def num_expr(draw, ctx, depth=None, kind="any", symbolic=None):
    """Numeric expression. kind: 'real' (no complex leaves) or 'any'.
    symbolic: None | 'params' | 'regs' -> include {p} / qN leaves (then no functions of them)."""
    depth = ctx.depth if depth is None else depth
    n = draw(st.sampled_from([1, 1, 2, 2, 3, 4])) if depth > 0 else draw(st.sampled_from([1, 1, 2]))
    operands, ops = [], []
    for i in range(n):
        if i:
            ops.append(draw(st.sampled_from(["+", "-", "*", "/", "**", "*", "+"])))
        prev = ops[-1] if ops else None
        base_pos = bool(operands) and operands[-1].signs.count("-") % 2 == 0 and isinstance(operands[-1].prim, A.Num) \
            and operands[-1].prim.kind in ("int", "float", "pi") and (len(ops) < 2 or ops[-2] != "**")
        operands.append(draw(_num_operand(ctx, depth, kind, symbolic, prev, base_pos)))
    return A.Flat(operands, ops)


@st.composite
def _num_operand(draw, ctx, depth, kind, symbolic, prev_op, base_positive_literal=False):
    signs = draw(st.sampled_from(["", "", "", "", "", "-", "+", "--"]))
    if prev_op == "**":
        # keep powers tame: small literal exponents (optionally signed / bracketed); fractional exponents mostly
        # on positive literal bases (a negative base with a fractional exponent is outside the real domain)
        pool = ["1", "2", "3", "2", "3", "2.0"] + ([] if symbolic else ["0"])
        if base_positive_literal or draw(st.integers(0, 7)) == 0:
            pool = pool + ["0.5", "1.5", "0.5"]
        e = draw(st.sampled_from(pool))
        kind_ = "int" if e.isdigit() else "float"
        s = draw(st.sampled_from(["", "", "", "", "", "", "", "-"] if kind_ == "int" else ["", "", "", "-"]))
        return A.Operand(s, A.Num(kind_, e))
    if prev_op == "/" and draw(st.integers(0, 2)) > 0:
        # keep most divisors away from zero
        if draw(st.booleans()):
            return A.Operand(signs, A.Num("int", str(draw(st.integers(1, 12)))))
        return A.Operand(signs, A.Num("float", "%d.%d" % (draw(st.integers(1, 30)), draw(st.integers(0, 99)))))
    choices = ["int", "float", "float"]
    if kind == "any" and not symbolic:
        choices.append("complex")
    if not symbolic:
        choices.append("pi")
    names = ctx.int_leaf_names() + ctx.real_leaf_names()
    if kind == "any" and not symbolic:
        names = names + ctx.complexes
    if names:
        choices += ["var", "var"]
    arrs = [n for n, (t, r, c, sym) in ctx.arrays.items()
            if not sym and (t != "complex" or (kind == "any" and not symbolic))]
    if arrs:
        choices.append("idx")
    if depth > 0:
        choices += ["paren"]
        if not symbolic:
            choices += ["fn"]
    if symbolic == "params" and ctx.params:
        choices += ["param"] * 4
        if ctx.sym_scalars:
            choices.append("symvar")
        # (not complex ones: their numeric elements would become complex coefficients of symbols, see DESIGN 3.3)
        sym_arrs = [n for n, (t, r, c, sym) in ctx.arrays.items() if sym and t != "complex"]
        if sym_arrs:
            choices.append("symidx")
    if symbolic == "regs" and ctx.regs:
        choices += ["reg"] * 4
        if ctx.reg_scalars:
            choices += ["regvar"] * 3
    k = draw(st.sampled_from(choices))
    if k == "int":
        if not symbolic and draw(st.integers(0, 11)) == 0:
            return A.Operand(signs, draw(num_int(small=False)))      # up to 2**62: beyond the 2**53 float-exact range
        if symbolic:
            return A.Operand(signs, A.Num("int", str(draw(st.integers(1, 9)))))   # (a literal 0 factor cancels the symbols)
        return A.Operand(signs, draw(num_int()))
    if k == "float":
        if symbolic and draw(st.integers(0, 9)) == 0:
            # coefficients that a "simplifier" would drop or snap: tiny ones and 10-digit approximations of simple fractions
            return A.Operand(signs, A.Num("float", draw(st.sampled_from(["3e-11", "2.5e-12", "1e-13", "0.3333333333", "0.6666666667",
                                                                          "0.1428571429", "0.7071067812", "1.0000000001", "2.9999999999"]))))
        if not symbolic and draw(st.integers(0, 11)) == 0:
            return A.Operand(signs, draw(num_float(moderate=False)))  # exponents up to e+-30
        if not symbolic and draw(st.integers(0, 14)) == 0:
            # decimal approximations of multiples of pi (a "pretty printer" might want to write them as k*pi/d)
            return A.Operand(signs, A.Num("float", draw(st.sampled_from(["1.0471975512", "3.14159265", "0.785398163397", "6.2831853072",
                                                                          "1.5707963267948966", "2.0943951023931953", "0.5235987756", "4.71238898"]))))
        return A.Operand(signs, draw(num_float()))
    if k == "complex":
        if draw(st.integers(0, 5)) == 0:
            return A.Operand(signs, draw(tiny_complex()))
        return A.Operand(signs, draw(num_complex()))
    if k == "pi":
        return A.Operand(signs, PI)
    if k == "var":
        return A.Operand(signs, A.Var(draw(st.sampled_from(names))))
    if k == "idx":
        return A.Operand(signs, draw(index_of(ctx, draw(st.sampled_from(arrs)), depth - 1)))
    if k == "paren":
        inner = A.Paren(draw(num_expr(ctx, depth - 1, kind, symbolic)))
        if draw(st.integers(0, 24)) == 0:
            for _ in range(draw(st.integers(4, 24))):      # deeply nested but legal brackets
                inner = A.Paren(F1(inner))
        return A.Operand(signs, inner)
    if k == "param":
        return A.Operand(signs, A.Param(draw(st.sampled_from(ctx.params))))
    if k == "symvar":
        return A.Operand(signs, A.Var(draw(st.sampled_from(ctx.sym_scalars))))
    if k == "symidx":
        return A.Operand(signs, draw(index_of(ctx, draw(st.sampled_from(sym_arrs)), -1)))
    if k == "reg":
        return A.Operand(signs, A.Reg(draw(st.sampled_from(ctx.regs))))
    if k == "regvar":
        return A.Operand(signs, A.Var(draw(st.sampled_from(ctx.reg_scalars))))
    # function call
    if kind == "any" and not symbolic and draw(st.integers(0, 9)) == 0:
        # a complex argument away from the axes (where the branch cuts are): a+bj with 0.3 <= |a|, |b| <= 3
        fn = draw(st.sampled_from(_REAL_FUNCS_ANY + _REAL_FUNCS_UNIT + _REAL_FUNCS_POS))
        re_ = "%d.%d" % (draw(st.integers(0, 2)), draw(st.integers(3, 9)))
        im_ = "%d.%dj" % (draw(st.integers(0, 2)), draw(st.integers(3, 9)))
        arg = A.Flat([A.Operand(draw(st.sampled_from(["", "-"])), A.Num("float", re_)), A.Operand("", A.Num("complex", im_))],
                     [draw(st.sampled_from(["+", "-"]))])
        return A.Operand(signs, A.Fn(fn, arg))
    fam = draw(st.sampled_from(["any", "any", "unit", "pos"]))
    if fam == "any":
        fn = draw(st.sampled_from(_REAL_FUNCS_ANY))
        if fn in ("sin", "cos", "tan", "arctan", "tanh", "arcsinh", "sinh") and draw(st.integers(0, 4)) == 0:
            # tiny arguments and arguments next to a zero of the function: the result is small, relative accuracy still counts
            tiny = A.Num("float", "%de-%d" % (draw(st.integers(1, 9)), draw(st.integers(3, 9))))
            if fn == "cos" or draw(st.integers(0, 3)) == 0:
                arg = A.Flat([A.Operand("", PI), A.Operand("", A.Num("int", "2")), A.Operand("", tiny)], ["/", draw(st.sampled_from(["+", "-"]))])
                if fn != "cos":
                    arg = A.Flat([A.Operand("", PI), A.Operand("", tiny)], [draw(st.sampled_from(["+", "-"]))]) if fn in ("sin", "tan") else F1(tiny)
            else:
                arg = F1(tiny, draw(st.sampled_from(["", "-"])))
        elif fn in ("exp", "sinh", "cosh"):
            # (arguments of moderate size: exp overflows beyond ~709)
            arg = F1(A.Num("float", "%d.%d" % (draw(st.integers(0, 9)), draw(st.integers(0, 999)))), draw(st.sampled_from(["", "-"])))
            if ctx.real_leaf_names() and draw(st.integers(0, 2)) == 0:
                arg = A.Flat([A.Operand("", A.Num("float", "0.01")), A.Operand("", A.Var(draw(st.sampled_from(ctx.real_leaf_names()))))], ["*"])
        else:
            arg = draw(num_expr(ctx, depth - 1, "real", None))
    elif fam == "unit":
        fn = draw(st.sampled_from(_REAL_FUNCS_UNIT))
        t = "0." + draw(st.text(alphabet=_DIG, min_size=1, max_size=3))
        arg = F1(A.Num("float", t), draw(st.sampled_from(["", "-"])))
    else:
        fn = draw(st.sampled_from(_REAL_FUNCS_POS + ["arccosh"]))
        base = draw(st.integers(2, 50))
        form = draw(st.sampled_from(["int", "float", "sum"]))
        if form == "int":
            arg = F1(A.Num("int", str(base)))
        elif form == "float":
            arg = F1(A.Num("float", "%d.%d" % (base, draw(st.integers(0, 99)))))
        else:
            arg = A.Flat([A.Operand("", A.Num("int", str(base))), A.Operand("", draw(num_float()))], ["+"])
    return A.Operand(signs, A.Fn(fn, arg))


# ------------------------------------------------------------------ values, arguments, statements

@st.composite
def risky_symbolic(draw, ctx, symbolic):
    """Symbolic expressions around Blackbird's unusual binding of the unary minus (tighter than **):
    negated powers of nested bracketed bases, products with -1, leading negative terms."""
    sub = Ctx(ints=ctx.ints, floats=ctx.floats, params=ctx.params, regs=ctx.regs, sym_scalars=ctx.sym_scalars,
              reg_scalars=ctx.reg_scalars, arrays=ctx.arrays, loopvar=ctx.loopvar, depth=2)
    inner = draw(num_expr(sub, 2, "real", symbolic))
    leaf = A.Param(draw(st.sampled_from(ctx.params))) if symbolic == "params" else A.Reg(draw(st.sampled_from(ctx.regs)))
    # base: (leaf + (inner)/c) or ((inner)*leaf + c) ... always depends on a symbol and has a nested bracket
    c = A.Num("float", draw(st.sampled_from(["2.0", "0.5", "3.0"])))
    pool = [A.Param(n) for n in ctx.params] if symbolic == "params" else [A.Reg(r) for r in ctx.regs]
    d1, d2 = draw(st.sampled_from(pool)), draw(st.sampled_from(pool))
    one = A.Num("int", "1")
    nested = A.Paren(A.Flat([A.Operand("", d1), A.Operand("", one)], ["+"]))          # (x + 1): stays bracketed when divided by a symbol
    base = draw(st.sampled_from([
        A.Flat([A.Operand("", leaf), A.Operand("", nested), A.Operand("", d2)], ["+", "/"]),                    # leaf + (x+1)/y
        A.Flat([A.Operand("", nested), A.Operand("", d2), A.Operand("", one)], ["/", "+"]),                     # (x+1)/y + 1
        A.Flat([A.Operand("", nested), A.Operand("", A.Paren(A.Flat([A.Operand("", d2), A.Operand("", c)], ["+"])))], ["*"]),  # (x+1)*(y+c)
        A.Flat([A.Operand("", leaf), A.Operand("", A.Paren(inner)), A.Operand("", c)], ["+", "/"]),
        A.Flat([A.Operand("", A.Paren(inner)), A.Operand("", leaf), A.Operand("", c)], ["*", "+"]),
        A.Flat([A.Operand("", A.Paren(A.Flat([A.Operand("", leaf), A.Operand("", c)], ["+"]))), A.Operand("", c), A.Operand("", A.Num("int", "1"))], ["/", "+"]),
        A.Flat([A.Operand("", leaf)], []),
    ]))
    k = A.Num("int", draw(st.sampled_from(["2", "2", "3", "4"])))
    pw = A.Flat([A.Operand("", A.Paren(base)), A.Operand("", k)], ["**"])
    form = draw(st.integers(0, 5))
    if form == 0:
        return A.Flat([A.Operand("-", A.Paren(pw))], [])                                  # -((B)**k)
    if form == 1:
        return A.Flat([A.Operand("", A.Num("int", "0")), A.Operand("", A.Paren(base)), A.Operand("", k)], ["-", "**"])   # 0-(B)**k
    if form == 2:
        return A.Flat([A.Operand("", A.Paren(base)), A.Operand("", k), A.Operand("-", A.Num("int", "1"))], ["**", "*"])  # (B)**k*-1
    if form == 3:
        return A.Flat([A.Operand("-", A.Paren(pw)), A.Operand("", A.Num("float", "3.0")), A.Operand("", leaf)], ["/", "+"])  # -((B)**k)/3.0+leaf
    if form == 4:
        return A.Flat([A.Operand("-", A.Paren(pw)), A.Operand("", A.Paren(base))], ["*"])   # -((B)**k)*(B)
    return A.Flat([A.Operand("-", A.Paren(base)), A.Operand("", k)], ["**"])               # -(B)**k  == (-(B))**k


@st.composite
def plain_value(draw, ctx, allow_nonnumeric=True, symbolic=None):
    """A single argument value (no list)."""
    choices = ["num", "num", "num", "int"]
    if allow_nonnumeric:
        choices += ["str", "bool"]
        if ctx.strs or ctx.bools:
            choices.append("nnvar")
    if symbolic:
        choices += ["sym", "sym", "sym"]
    k = draw(st.sampled_from(choices))
    if k == "num" and draw(st.integers(0, 15)) == 0:
        return F1(A.Num("float", draw(st.sampled_from(["0.0", "0e0", "0.00", "00.0"]))), draw(st.sampled_from(["", "-", "-"])))     # signed zeros
    if k == "num":
        return draw(num_expr(ctx))
    if k == "int" and draw(st.integers(0, 24)) == 0:
        return F1(A.Num("int", str(draw(st.integers(2 ** 63, 2 ** 72)))), draw(st.sampled_from(["", "-"])))   # beyond the 64-bit range
    if k == "int":
        return draw(int_expr(ctx))
    if k == "str":
        return A.Str(draw(str_text(ctx.ascii_only)))
    if k == "bool":
        return A.Bool(draw(st.booleans()))
    if k == "nnvar":
        return F1(A.Var(draw(st.sampled_from(ctx.strs + ctx.bools))))
    if ((symbolic == "params" and ctx.params) or (symbolic == "regs" and ctx.regs)) and draw(st.integers(0, 4)) == 0:
        return draw(risky_symbolic(ctx, symbolic))
    if symbolic == "params" and ctx.complex_coefficients and draw(st.integers(0, 4)) == 0:
        # a complex coefficient of a template parameter
        e = draw(num_expr(ctx, kind="real", symbolic=symbolic))
        cz = draw(num_complex(allow_lead_sign=False))
        p = A.Param(draw(st.sampled_from(ctx.params))) if ctx.params else None
        extra = [A.Operand("", cz)] + ([A.Operand("", p)] if p is not None else [])
        return A.Flat(e.operands + extra, e.ops + [draw(st.sampled_from(["+", "*", "-"]))] + (["*"] if p is not None else []))
    return draw(num_expr(ctx, kind="real", symbolic=symbolic))


@st.composite
def arguments(draw, ctx, symbolic=None, allow_arrays=True, allow_lists=True, max_pos=3, max_kw=3, kw_only=False):
    npos = 0 if kw_only else draw(st.integers(0, max_pos))
    nkw = draw(st.integers(0, max_kw))
    whole = [n for n, (t, r, c, sym) in ctx.arrays.items() if allow_arrays]
    pos = []
    live_twins = [(a_, b_) for a_, b_ in ctx.twins if allow_arrays and a_ in ctx.arrays and b_ in ctx.arrays
                  and a_ in ctx.array_elems and b_ in ctx.array_elems and ctx.array_elems[a_] is not None
                  and ctx.array_elems[a_][1] is ctx.array_elems[b_][1]]
    if live_twins and not kw_only and draw(st.integers(0, 2)) == 0:
        # both arrays of a twin pair (same elements, different shape) in one argument list
        a_, b_ = draw(st.sampled_from(live_twins))
        pos.extend([F1(A.Var(a_)), F1(A.Var(b_))])
    # (arrays named p<digits> are p-arrays in tdm programs -- passed by name, no arithmetic)
    plain = sorted(n for n, (t, r, c, sym) in ctx.arrays.items() if allow_arrays and not sym and not (n[0] == "p" and n[1:].isdigit()))
    for _ in range(npos):
        if plain and draw(st.integers(0, 9)) == 0:
            # elementwise sum / difference of two equally shaped arrays (possibly the same one twice)
            a = draw(st.sampled_from(plain))
            same = [n for n in plain if ctx.arrays[n][1:3] == ctx.arrays[a][1:3]]
            b = draw(st.sampled_from(same))
            pos.append(A.Flat([A.Operand("", A.Var(a)), A.Operand("", A.Var(b))], [draw(st.sampled_from(["+", "-"]))]))
        elif whole and draw(st.integers(0, 5)) == 0:
            pos.append(F1(A.Var(draw(st.sampled_from(whole)))))
        else:
            pos.append(draw(plain_value(ctx, symbolic=symbolic)))
    keys = draw(st.lists(ident(), min_size=nkw, max_size=nkw, unique=True))
    kwargs = []
    for k in keys:
        c = draw(st.integers(0, 7))
        if allow_lists and c <= 1:
            items = draw(st.lists(plain_value(ctx, symbolic=None), min_size=1, max_size=4))
            kwargs.append([k, A.ListVal(items)])
        elif whole and c == 2:
            kwargs.append([k, F1(A.Var(draw(st.sampled_from(whole))))])
        else:
            kwargs.append([k, draw(plain_value(ctx, symbolic=symbolic))])
    tc = bool(pos) and not kwargs and draw(st.integers(0, 5)) == 0
    return A.Args(pos, kwargs, tc)


@st.composite
def mode_expr(draw, ctx, max_mode=12):
    choices = ["lit"] * 4
    if ctx.loopvar and ctx.loopvar[1] == "int":
        choices += ["loop", "loop", "loop+"]
    if ctx.ints:
        choices.append("var")
    k = draw(st.sampled_from(choices))
    if k == "lit":
        if draw(st.integers(0, 14)) == 0:
            return F1(A.Num("int", str(draw(st.sampled_from([127, 255, 256, 1000, 65535, 65536, 10 ** 6, 2 ** 31 - 1, 2 ** 31, 2 ** 40])))))   # large mode numbers
        return F1(A.Num("int", draw(int_lexeme(maxv=max_mode))))
    if k == "loop":
        return F1(A.Var(ctx.loopvar[0]))
    if k == "loop+":
        a = draw(st.integers(0, 3))
        op = draw(st.sampled_from(["+", "*"]))
        ops = [A.Operand("", A.Var(ctx.loopvar[0])), A.Operand("", A.Num("int", str(a)))]
        if draw(st.booleans()):
            ops.reverse()
        return A.Flat(ops, [op])
    return F1(A.Var(draw(st.sampled_from(ctx.ints))))


@st.composite
def statement(draw, ctx, symbolic=None, max_mode=12, balanced=False, allow_arrays=True):
    measure = draw(st.integers(0, 5)) == 0
    op = draw(measure_name() if measure else op_name())
    has_args = draw(st.integers(0, 4)) > 0
    args = draw(arguments(ctx, symbolic=symbolic, allow_arrays=allow_arrays)) if has_args else None
    nm = draw(st.sampled_from([1, 1, 1, 2, 2, 3]))
    modes = [draw(mode_expr(ctx, max_mode)) for _ in range(nm)]
    if balanced:
        lbr, rbr = draw(st.sampled_from([("", ""), ("[", "]"), ("(", ")")]))
    else:
        lbr = draw(st.sampled_from(["", "", "[", "[", "("]))
        rbr = draw(st.sampled_from(["", "", "]", "]", ")"]))
    return A.Stmt(op, args, modes, lbr, rbr)


# ------------------------------------------------------------------ declarations

def _forget(ctx, name):
    """Remove a name from the context before it is declared again."""
    for lst in (ctx.ints, ctx.floats, ctx.complexes, ctx.strs, ctx.bools, ctx.sym_scalars, ctx.reg_scalars):
        while name in lst:
            lst.remove(name)
    ctx.arrays.pop(name, None)
    ctx.array_elems.pop(name, None)


def _decl_name(draw, ctx):
    """A fresh name, or (1 in 6) a name declared earlier: redeclaration is legal Blackbird."""
    cands = sorted(ctx.ints + ctx.floats + ctx.complexes + ctx.strs + ctx.bools + list(ctx.arrays))
    if ctx.loopvar:
        cands = [c for c in cands if c != ctx.loopvar[0]]
    cands = [c for c in cands if c not in ctx.frozen]
    if cands and draw(st.integers(0, 5)) == 0:
        name = draw(st.sampled_from(cands))
        _forget(ctx, name)
        return name
    return draw(fresh_name(ctx))


def fresh_name(ctx):
    if ctx.names:
        free = [n for n in ctx.names if n not in ctx.used and _is_name(n)]
        if free:
            return st.sampled_from(free)
    return ident().filter(lambda n: n not in ctx.used)


@st.composite
def scalar_decl(draw, ctx, symbolic=None, name=None):
    vtype = draw(st.sampled_from(["int", "float", "float", "complex", "bool", "str"]))
    if name is None:
        name = _decl_name(draw, ctx)
    if vtype in ("int", "float") and draw(st.integers(0, 24)) == 0:
        # an integer literal beyond the 64-bit range as the whole initialiser (the variable is not referenced afterwards)
        big = draw(st.one_of(st.integers(2 ** 63, 2 ** 64 + 5), st.integers(2 ** 64, 2 ** 80), st.just(2 ** 63)))
        ctx.used.add(name)
        return A.ScalarDecl(vtype, name, F1(A.Num("int", str(big)), draw(st.sampled_from(["", "-"]))))
    if vtype == "int":
        init = draw(int_expr(ctx))
    elif vtype == "float":
        if symbolic == "params" and ctx.params and draw(st.integers(0, 2)) == 0:
            init = draw(num_expr(ctx, kind="real", symbolic="params"))
            if not any(isinstance(p, (A.Param,)) or (isinstance(p, A.Var) and p.name in ctx.sym_scalars)
                       for p in A.walk_prims(init)):
                init = A.Flat(init.operands + [A.Operand("", A.Param(draw(st.sampled_from(ctx.params))))],
                              init.ops + ["+"])
            ctx.used.add(name)
            ctx.sym_scalars.append(name)
            return A.ScalarDecl(vtype, name, init)
        if symbolic == "regs" and ctx.regs and draw(st.integers(0, 2)) == 0:
            # a variable holding an expression over measured registers (float fb = 0.5*q0 - q12/4): statements that mention
            # the variable depend on those registers without writing any register themselves
            init = draw(num_expr(ctx, kind="real", symbolic="regs"))
            if not any(isinstance(p, A.Reg) or (isinstance(p, A.Var) and p.name in ctx.reg_scalars) for p in A.walk_prims(init)):
                init = A.Flat(init.operands + [A.Operand("", A.Reg(draw(st.sampled_from(ctx.regs))))], init.ops + ["+"])
            ctx.used.add(name)
            ctx.reg_scalars.append(name)
            return A.ScalarDecl(vtype, name, init)
        init = draw(num_expr(ctx, kind="real"))
    elif vtype == "complex":
        init = draw(num_expr(ctx, kind="any"))
    elif vtype == "bool":
        init = A.Bool(draw(st.booleans()))
    else:
        init = A.Str(draw(str_text(ctx.ascii_only)))
    ctx.used.add(name)
    {"int": ctx.ints, "float": ctx.floats, "complex": ctx.complexes, "bool": ctx.bools, "str": ctx.strs}[vtype].append(name)
    return A.ScalarDecl(vtype, name, init)


@st.composite
def array_decl(draw, ctx, symbolic=None, name=None, max_rows=4, max_cols=5):
    vtype = draw(st.sampled_from(["int", "float", "float", "complex"]))
    if name is None:
        name = _decl_name(draw, ctx)
    r = draw(st.integers(1, max_rows))
    c = draw(st.integers(1, max_cols))
    if draw(st.integers(0, 11)) == 0:
        r, c = draw(st.sampled_from([(1, 11), (1, 12), (2, 11), (11, 1), (12, 2), (1, 23)]))     # more than ten rows / columns
    with_shape = draw(st.booleans())
    sym = False
    if symbolic == "params" and ctx.params and draw(st.integers(0, 2)) == 0:
        if draw(st.integers(0, ctx.whole_array_odds)) == 0:
            # an array-valued parameter gets a name of its own (mostly): one name cannot be a scalar and an array
            own = [n for n in ["U", "V", "W", "M", "T2", "U_1"] if n not in ctx.params and n not in ctx.used]
            pn = draw(st.sampled_from(own)) if (own and draw(st.integers(0, 5)) > 0) else draw(st.sampled_from(ctx.params))
            if pn in own:
                ctx.used.add(pn)
            ctx.used.add(name)
            ctx.arrays[name] = (vtype, r, c, True)
            return A.ArrayParamDecl(vtype, name, [str(r), str(c)], pn)
        sym = True
        if r * c == 1:
            c = 2      # a lone bare {p} is the whole-array form, which needs a declared shape
    if symbolic == "params" and ctx.params and draw(st.integers(0, 5)) == 0:
        # every element a parameter named like the entries of an array-valued parameter (u_0_0, u_0_1, ...), in another order
        bases = [b for b in ["u", "w", "g_x", "U0"] if b not in ctx.used and not any(q == b or q.startswith(b + "_") for q in ctx.params)]
        if bases:
            b = draw(st.sampled_from(bases))
            r2, c2 = draw(st.sampled_from([(1, 2), (2, 1), (2, 2), (1, 3), (2, 3), (3, 2)]))
            idx = [(i, j) for i in range(r2) for j in range(c2)]
            perm = draw(st.permutations(idx))
            vt2 = draw(st.sampled_from(["float", "complex"]))
            rows = [[F1(A.Param("%s_%d_%d" % ((b,) + perm[i * c2 + j]))) for j in range(c2)] for i in range(r2)]
            ctx.used.add(b)
            ctx.used.add(name)
            for (i, j) in idx:
                ctx.params.append("%s_%d_%d" % (b, i, j))
            ctx.arrays[name] = (vt2, r2, c2, True)
            return A.ArrayDecl(vt2, name, [str(r2), str(c2)] if with_shape else None, rows)
    twins = sorted(n for n, (t, rr, cc, sy) in ctx.arrays.items() if not sy and n in ctx.array_elems and n != name)
    if not sym and twins and draw(st.integers(0, 2)) == 0:
        # same elements as an earlier array in another shape (1 x n, n x 1, transposed shape, ...)
        src = draw(st.sampled_from(twins))
        vtype, elems = ctx.array_elems[src]
        n = len(elems)
        shapes = [(a, n // a) for a in range(1, n + 1) if n % a == 0]
        r, c = draw(st.sampled_from(shapes))
        rows = [elems[i * c:(i + 1) * c] for i in range(r)]
        ctx.used.add(name)
        ctx.arrays[name] = (vtype, r, c, False)
        ctx.array_elems[name] = (vtype, elems)
        ctx.twins.append((src, name))
        return A.ArrayDecl(vtype, name, [str(r), str(c)] if with_shape else None, rows)
    sub = Ctx(ints=ctx.ints, floats=ctx.floats, complexes=ctx.complexes, arrays={k: v for k, v in ctx.arrays.items()},
              depth=min(ctx.depth, 1))
    rows = []
    any_param = False
    bare_vars = list(ctx.ints) + ([] if vtype == "int" else list(ctx.floats)) + (list(ctx.complexes) if vtype == "complex" else [])
    for i in range(r):
        row = []
        for j in range(c):
            if sym and draw(st.integers(0, 2)) == 0:
                row.append(F1(A.Param(draw(st.sampled_from(ctx.params)))))
                any_param = True
            elif bare_vars and draw(st.integers(0, 4)) == 0:
                # a declared scalar written as a bare element (names such as j, inf, e are the interesting ones)
                risky = [v for v in bare_vars if v in _RISKY_NAMES]
                row.append(F1(A.Var(draw(st.sampled_from(risky if (risky and draw(st.booleans())) else bare_vars)))))
            elif vtype == "int":
                row.append(draw(int_expr(sub, 1)))
            elif vtype == "float":
                row.append(draw(num_expr(sub, 1, "real")))
            else:
                row.append(draw(num_expr(sub, 1, "any")))
        rows.append(row)
    if sym and not any_param:
        rows[-1][-1] = F1(A.Param(draw(st.sampled_from(ctx.params))))
    ctx.used.add(name)
    ctx.arrays[name] = (vtype, r, c, sym)
    if not sym and not any(isinstance(p, (A.Var, A.Idx)) for row in rows for e in row for p in A.walk_prims(e)):
        # (only literal-valued arrays serve as twin sources: variables may be declared again in between)
        ctx.array_elems[name] = (vtype, [e for row in rows for e in row])
    return A.ArrayDecl(vtype, name, [str(r), str(c)] if with_shape else None, rows)


# ------------------------------------------------------------------ loops

@st.composite
def for_loop(draw, ctx, symbolic=None, max_mode=12, allow_empty=True, body_max=3):
    vtype = draw(st.sampled_from(["int", "int", "int", "float", "bool", "str"]))
    var = draw(fresh_name(ctx))
    if vtype == "int" and not ctx.names and draw(st.integers(0, 11)) == 0:
        # a range whose bounds need more than 53 / 63 / 64 bits (INT is [0-9]+, ranges are exact for any size); the body
        # uses the variable bare -- arithmetic on integers beyond the 64-bit range is outside the value domain
        base = draw(st.sampled_from([2 ** 53 - 2, 2 ** 62 - 1, 2 ** 63 - 3, 2 ** 63 - 1, 2 ** 63, 2 ** 64 - 2, 2 ** 64, 10 ** 20]))
        a = base + draw(st.integers(0, 3))
        step = draw(st.sampled_from([None, None, 1, 2, 3, 2 ** 61 + 1]))
        ln = draw(st.integers(0 if allow_empty else 1, 4))
        b = a + (step or 1) * ln
        ctx.used.add(var)
        body = []
        for _ in range(draw(st.integers(1, body_max))):
            v_ = F1(A.Var(var))
            form = draw(st.integers(0, 3))
            args = [A.Args([v_], [], False), A.Args([], [[draw(ident()), v_]], False),
                    A.Args([F1(A.Num("int", "1")), v_], [[draw(ident()), A.ListVal([v_, v_])]], False),
                    A.Args([v_, v_], [], True)][form]
            body.append(A.Stmt(draw(op_name()), args, [draw(mode_expr(Ctx(depth=0), max_mode))], "", ""))
        return A.For("int", var, A.Range(str(a), str(b), None if step is None else str(step)), body)
    if vtype in ("int", "float") and draw(st.integers(0, 2)) > 0:
        a = draw(st.integers(0, 6))
        ln = draw(st.integers(0 if allow_empty else 1, 4))
        step = draw(st.sampled_from([None, None, 1, 2, 3, -1, -2]))
        s = step if step is not None else 1
        if ln == 0:
            b = a if draw(st.booleans()) else (a - s * draw(st.integers(1, 3)))
            if b < 0 or a < 0:
                b = a
        else:
            b = a + s * ln - (draw(st.integers(0, abs(s) - 1)) * (1 if s > 0 else -1))
        if b < 0 or (s < 0):
            # INT tokens cannot be negative; keep ascending ranges with non-negative bounds
            s = abs(s)
            step = None if step is None else s
            b = a + s * ln
        header = A.Range(str(a), str(b), None if step is None else str(step))
    else:
        n = draw(st.integers(1, 4))
        sub = Ctx(ints=ctx.ints, floats=ctx.floats, depth=1)
        vals = []
        for _ in range(n):
            if vtype == "int":
                vals.append(draw(st.one_of(num_int(maxv=8).map(F1), int_expr(sub, 1, nonneg=True))))
            elif vtype == "float":
                vals.append(draw(st.one_of(num_float().map(F1), num_int(maxv=8).map(F1), num_expr(sub, 1, "real"))))
            elif vtype == "bool":
                vals.append(A.Bool(draw(st.booleans())))
            else:
                vals.append(A.Str(draw(str_text(ctx.ascii_only))))
        lbr, rbr = draw(st.sampled_from([("", ""), ("[", "]"), ("(", ")"), ("[", "]")]))
        header = A.ForList(vals, lbr, rbr)
    ctx.used.add(var)
    saved = ctx.loopvar
    saved_max = ctx.loop_max
    ctx.loopvar = (var, vtype)
    ctx.loop_max = None
    if vtype == "int":
        if isinstance(header, A.Range):
            ctx.loop_max = max(int(header.a), int(header.b) - 1)
        elif all(isinstance(v, A.Flat) and len(v.operands) == 1 and not v.operands[0].signs and isinstance(v.operands[0].prim, A.Num) for v in header.vals):
            ctx.loop_max = max(int(v.operands[0].prim.text) for v in header.vals)
    if vtype == "bool":
        ctx.bools.append(var)
    if vtype == "str":
        ctx.strs.append(var)
    nb = draw(st.integers(1, body_max))
    body = [draw(statement(ctx, symbolic=symbolic, max_mode=max_mode)) for _ in range(nb)]
    ctx.loopvar = saved
    ctx.loop_max = saved_max
    if vtype == "bool":
        ctx.bools.remove(var)
    if vtype == "str":
        ctx.strs.remove(var)
    return A.For(vtype, var, header, body)


# ------------------------------------------------------------------ metadata and scripts

@st.composite
def option_args(draw, ctx):
    n = draw(st.integers(0, 3))
    keys = draw(st.lists(ident(), min_size=n, max_size=n, unique=True))
    empty = Ctx(depth=1, ascii_only=ctx.ascii_only)
    kwargs = []
    for k in keys:
        c = draw(st.integers(0, 5))
        if c == 0:
            kwargs.append([k, A.ListVal(draw(st.lists(plain_value(empty), min_size=1, max_size=3)))])
        else:
            kwargs.append([k, draw(plain_value(empty))])
    pos = []
    if draw(st.integers(0, 7)) == 0:
        # positional options are ignored with a warning (documented); the keyword options written after them still count
        pos = draw(st.lists(plain_value(empty), min_size=1, max_size=2))
    return A.Args(pos, kwargs, False)


@dataclass
class Cfg:
    max_items: int = 8
    depth: int = 2
    params: bool = False
    regs: bool = False
    loops: bool = True
    arrays: bool = True
    options: bool = True
    tdm: bool = False
    ascii_only: bool = True
    balanced_modes: bool = False
    sym_vars: bool = True            # parameters in scalar initialisers / arrays
    sym_scalars: bool = True         # parameters in scalar initialisers
    reg_vars: bool = True            # register expressions in scalar initialisers
    min_loops: int = 0
    stmt_weight: int = 3
    array_args: bool = True
    max_mode: int = 12
    names: Optional[list] = None     # restricted pool for variable / loop / parameter names
    whole_array_odds: int = 3
    complex_coefficients: bool = False
    array_weight: int = 1


@st.composite
def script(draw, cfg=Cfg()):
    ctx = Ctx(depth=cfg.depth, ascii_only=cfg.ascii_only, names=cfg.names, whole_array_odds=cfg.whole_array_odds,
              complex_coefficients=cfg.complex_coefficients)
    name = draw(ident())
    version = draw(st.one_of(st.sampled_from(["1.0", "0.0", "1.0", "12.5e-1", "1e5"]), real_lexeme()))
    target = ptype = None
    if cfg.options and draw(st.booleans()):
        target = A.Meta(draw(device_name()), draw(st.one_of(st.none(), option_args(ctx))))
    if cfg.tdm:
        ptype = A.Meta("tdm", draw(option_args(ctx)))
    elif cfg.options and draw(st.integers(0, 2)) == 0:
        ptype = A.Meta(draw(ident().filter(lambda n: n != "tdm")), draw(st.one_of(st.none(), option_args(ctx))))
    if cfg.params:
        pn = ident(for_param=True) if not cfg.names else st.sampled_from([n for n in cfg.names if not keyword.iskeyword(n)])
        if cfg.tdm:
            # the names the p-array pool below may declare stay free for the arrays
            pn = pn.filter(lambda n: n not in ("p0", "p1", "p12"))
        ctx.params = draw(st.lists(pn, min_size=1, max_size=4 if not cfg.names else 2, unique=True))
        if cfg.tdm and not cfg.names and draw(st.integers(0, 2)) == 0:
            # free parameters spelt like p-arrays ({p3}); no array of that name is ever declared
            extra = draw(st.sampled_from(["p2", "p3", "p7", "p23", "p05"]))
            if extra not in ctx.params:
                ctx.params.insert(draw(st.integers(0, len(ctx.params))), extra)
        if not cfg.names and not cfg.tdm and draw(st.integers(0, 3)) == 0:
            # a name and the same name with an underscore suffix (g / g_max, theta / theta_1)
            base = ctx.params[0]
            extra = base + draw(st.sampled_from(["_1", "_max", "_0", "_b"]))
            if extra not in ctx.params and _is_name(extra):
                ctx.params.append(extra)
    if cfg.regs:
        nums = draw(st.lists(st.one_of(st.integers(0, 12), st.integers(0, 12), st.integers(0, 999)), min_size=1, max_size=4, unique=True))
        ctx.regs = ["q" + draw(st.sampled_from(["", "", "", "0", "00"])) + str(n) for n in nums]
    items = []
    n = draw(st.integers(1, cfg.max_items))
    symbolic = "params" if cfg.params else None
    for _ in range(n):
        kinds = ["stmt"] * cfg.stmt_weight + ["scalar"]
        if cfg.arrays:
            kinds.extend(["array"] * cfg.array_weight)
        if cfg.loops:
            kinds.append("loop")
        k = draw(st.sampled_from(kinds))
        plain_arrays = sorted(n_ for n_, (t_, r_, c_, sy_) in ctx.arrays.items() if not sy_ and n_ not in ctx.frozen
                              and not (n_[0] == "p" and n_[1:].isdigit()))
        if cfg.arrays and plain_arrays and draw(st.integers(0, 11)) == 0:
            # read an element, declare the array again under the same name, read an element again
            nm_ = draw(st.sampled_from(plain_arrays))
            zero_ = F1(A.Num("int", "0"))
            items.append(A.Stmt(draw(op_name()), A.Args([F1(draw(index_of(ctx, nm_)))], [], False), [zero_], "", ""))
            _forget(ctx, nm_)
            items.append(draw(array_decl(ctx, name=nm_)))
            items.append(A.Stmt(draw(op_name()), A.Args([F1(draw(index_of(ctx, nm_)))], [["k", F1(draw(index_of(ctx, nm_)))]], False), [zero_], "", ""))
            continue
        arg_sym = symbolic
        if cfg.regs and (not cfg.params or draw(st.booleans())):
            arg_sym = "regs"
        if k == "stmt":
            items.append(draw(statement(ctx, symbolic=arg_sym, max_mode=cfg.max_mode, balanced=cfg.balanced_modes,
                                        allow_arrays=cfg.array_args)))
        elif k == "scalar":
            sc_sym = symbolic if (cfg.sym_vars and cfg.sym_scalars) else None
            if cfg.regs and cfg.reg_vars and arg_sym == "regs":
                sc_sym = "regs"
            items.append(draw(scalar_decl(ctx, symbolic=sc_sym)))
        elif k == "array":
            nm = None
            if cfg.tdm and draw(st.booleans()):
                # p-arrays and near misses of the p<digits> pattern
                free = [n_ for n_ in ["p0", "p1", "p12", "p0_offset", "p12b", "p1a", "pa", "P0", "p_1"] if n_ not in ctx.used]
                if free:
                    nm = draw(st.sampled_from(free))
            items.append(draw(array_decl(ctx, symbolic=symbolic if cfg.sym_vars else None, name=nm)))
            if cfg.tdm and items[-1].name[0] == "p" and items[-1].name[1:].isdigit():
                ctx.frozen.add(items[-1].name)     # a p-array must stay an array ("p0 must be an array")
        else:
            items.append(draw(for_loop(ctx, symbolic=arg_sym, max_mode=cfg.max_mode)))
    nloops = sum(isinstance(i, A.For) for i in items)
    for _ in range(max(0, cfg.min_loops - nloops)):
        arg_sym = "regs" if (cfg.regs and not cfg.params) else symbolic
        items.insert(draw(st.integers(0, len(items))) if False else len(items), draw(for_loop(ctx, symbolic=arg_sym, max_mode=cfg.max_mode)))
        if draw(st.booleans()):
            items.append(draw(statement(ctx, symbolic=arg_sym, max_mode=cfg.max_mode)))
    sc = A.Script(name, version, target, ptype, [], items)
    if cfg.params and not _has_prim(sc, A.Param):
        ctx.loopvar = None
        e1 = draw(num_expr(ctx, 1, "real", "params"))
        e1 = A.Flat(e1.operands + [A.Operand("", A.Param(draw(st.sampled_from(ctx.params))))], e1.ops + [draw(st.sampled_from(["+", "*", "-"]))])
        kw = []
        if draw(st.booleans()):
            kw.append([draw(ident()), F1(A.Param(draw(st.sampled_from(ctx.params))), draw(st.sampled_from(["", "-"])))])
        items.append(A.Stmt(draw(op_name()), A.Args([e1], kw, False), [draw(mode_expr(ctx, cfg.max_mode))], "", ""))
    if cfg.regs and not _has_prim(sc, A.Reg):
        ctx.loopvar = None
        e1 = draw(num_expr(ctx, 1, "real", "regs"))
        e1 = A.Flat(e1.operands + [A.Operand("", A.Reg(draw(st.sampled_from(ctx.regs))))], e1.ops + [draw(st.sampled_from(["+", "*", "-"]))])
        items.append(A.Stmt(draw(op_name()), A.Args([e1], [], False), [draw(mode_expr(ctx, cfg.max_mode))], "", ""))
    return sc


def _has_prim(script, cls):
    for it in script.items:
        vals = []
        if isinstance(it, A.ScalarDecl):
            vals = [it.init]
        elif isinstance(it, A.ArrayDecl):
            vals = [e for r in it.rows for e in r]
        elif isinstance(it, A.ArrayParamDecl):
            if cls is A.Param:
                return True
        elif isinstance(it, (A.Stmt, A.For)):
            for s_ in (it.body if isinstance(it, A.For) else [it]):
                if s_.args is not None:
                    vals += list(s_.args.pos) + [v for _, v in s_.args.kwargs]
        for v in vals:
            for x in (v.items if isinstance(v, A.ListVal) else [v]):
                if isinstance(x, A.Flat) and any(isinstance(p, cls) for p in A.walk_prims(x)):
                    return True
    return False

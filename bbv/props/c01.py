"""C01 -- serialise-then-parse round trip of loaded programs, for every generation."""
import numbers

import numpy as np
from hypothesis import strategies as st

from ..model import ast as A, strategies as S
from ..run import Outcome, Violation, exc_bucket
from .. import canon
from . import common as K

ID = "C01"
RULE = ("Hypothesis constructs valid script models with every construct (metadata/options, typed scalars, arrays, redeclarations, "
        "expressions, keyword/list arguments, Measure*, for-loops with computed modes, template parameters with arbitrary "
        "(overlapping) names in positional and keyword position, parameters in scalars/arrays, measured-register expressions, "
        "tdm programs with p-arrays); p1=loads(text); for generations 1..3: t=dumps(p_n), p_{n+1}=loads(t) must succeed and "
        "equal p_n in name, version, target, type, options, parameters and operations (numbers/bools/strings/lists/arrays "
        "exactly and of the same kind; symbolic arguments equal as functions at 3 sample points, relative 1e-9). "
        "Non-trivial = >=3 operations and two of {computed NumPy scalar in list or modes, array argument, parameter, register "
        "expression, keyword list, options, loop}. Distinct = SHA-1 of the script text. Scripts outside the value domain "
        "(non-finite / out-of-domain arithmetic per the reference) are discarded and counted."
        " Real zeros keep their sign (-0.0 / 0.0 in scalars, lists, options, float arrays; complex parts exempt);"
        " generated values include signed zeros, decimal approximations of multiples of pi, integer literals beyond"
        " the 64-bit range, arrays whose elements are parameters named like the entries of an array-valued parameter"
        " in another order, and read/redeclare/read sequences of arrays.")
ASSUMPTIONS = ["the generated scripts are valid (reference interpreter accepts them; C02 checks the loader against it)"]
BUDGET = {"quick": (1600, 4), "thorough": (48000, 16)}


def _cfgs(tier):
    big = tier != "quick"
    n, d = (16, 3) if big else (8, 2)
    return [
        S.Cfg(ascii_only=False, max_items=n, depth=d),
        S.Cfg(ascii_only=False, max_items=n, depth=d, params=True, complex_coefficients=True),
        S.Cfg(ascii_only=False, max_items=n, depth=d, regs=True),
        S.Cfg(ascii_only=False, max_items=n, depth=d, params=True, regs=True),
        S.Cfg(ascii_only=False, max_items=n, depth=d, tdm=True, params=True, sym_vars=False),
    ]


def strategy(tier):
    return st.one_of([K.script_case(c) for c in _cfgs(tier)] + [tdm_case(tier), files_case(tier)])


@st.composite
def files_case(draw, tier):
    """A program obtained with blackbird.load from a generated include tree (C07's generator)."""
    from . import c07
    return {"c07": draw(c07.case(tier)), "layout": draw(K.layout_light())}


@st.composite
def tdm_case(draw, tier):
    from .c15 import tdm_script
    return {"script": draw(tdm_script(tier)), "layout": draw(K.layout_light())}


dump_case, load_case = K.dump_case, K.load_case


def _np_scalar_in_container(p):
    for op in p.operations:
        if any(isinstance(m, np.generic) for m in op["modes"]) and len(op["modes"]) > 1:
            return True
        for v in (op.get("kwargs") or {}).values():
            if isinstance(v, list) and any(isinstance(x, np.generic) for x in v):
                return True
    return False


def _all_values(p):
    for op in p.operations:
        for a in op.get("args", []):
            yield a
        for a in (op.get("kwargs") or {}).values():
            yield a


def _symbols_cancel(p):
    """A symbol that cancels identically leaves a constant SymPy expression behind (C01/C08 exclude that)."""
    import sympy as sym
    for a in _all_values(p):
        if isinstance(a, sym.Expr) and not a.free_symbols:
            return "symbol-cancels-identically"
    return None


def _params_in_operations(p):
    import sympy as sym
    names = set()
    for a in _all_values(p):
        if isinstance(a, sym.Expr):
            names |= {str(s) for s in a.free_symbols}
        elif isinstance(a, np.ndarray) and a.dtype == object:
            for x in a.flatten():
                if isinstance(x, sym.Expr):
                    names |= {str(s) for s in x.free_symbols}
    return names


def _load_include_tree(c):
    """(text for reports, program) of a generated include tree, or raises Discard."""
    import os
    import shutil
    import tempfile
    from . import c07
    from ..model import refsem, render
    root = tempfile.mkdtemp(prefix="bbv-c01-")
    try:
        try:
            texts, ref, multi = c07.build(c["c07"], root)
        except (refsem.OutOfDomain, refsem.RefModelError, render.RenderError):
            raise K.Discard("include-tree-outside-domain")
        for rel, t in texts.items():
            path = os.path.join(root, rel)
            os.makedirs(os.path.dirname(path), exist_ok=True)
            with open(path, "w", encoding="ascii", newline="") as f:
                f.write(t)
        p, e = K.safe_load_file(os.path.join(root, c["c07"]["main"]))
        if e is not None:
            raise K.Discard("load-failed:" + type(e).__name__)
        return "\n".join("### %s\n%s" % (k, v.replace(root, "<ROOT>")) for k, v in sorted(texts.items())), p
    finally:
        shutil.rmtree(root, ignore_errors=True)


def check(c):
    if "c07" in c:
        text, p = _load_include_tree(c)
        feats = {"include-tree", "loop"} if any(cl["loop"] for cl in c["c07"]["calls"]) else {"include-tree"}
        out = Outcome(key=text, sample={"files": text}, classes=sorted(feats))
    else:
        script = c["script"]
        try:
            K.reference(script)
        except K.Discard as d:
            return Outcome(discard=d.reason)
        text = K.render_case(c)
        feats, nstmt = K.features(script)
        out = Outcome(key=text, sample={"script": text}, classes=sorted(feats))
        p, e = K.safe_loads(text)
        if e is not None:
            # C02's business; here the script simply yields no program to round-trip
            return Outcome(discard="load-failed:" + type(e).__name__)
    sym_problem = _symbols_cancel(p)
    if sym_problem:
        return Outcome(discard=sym_problem)
    marks = feats & {"param", "register", "list-kwarg", "options", "loop", "include-tree"}
    if any(isinstance(a, np.ndarray) for op in p.operations for a in list(op.get("args", [])) + list((op.get("kwargs") or {}).values())):
        marks = marks | {"array-arg"}
        out.classes.append("array-argument")
    if _np_scalar_in_container(p):
        marks = marks | {"np-scalar-in-container"}
        out.classes.append("numpy-scalar-in-list-or-modes")
    out.nontrivial = len(p.operations) >= 3 and len(marks) >= 2
    cur, cur_text = p, text
    for gen in (1, 2, 3):
        t, e = K.safe_dumps(cur)
        if e is not None:
            b = exc_bucket("dumps", e)
            if b.endswith("numpy_to_blackbird"):
                obj = any(isinstance(a, np.ndarray) and a.dtype == object for a in _all_values(cur))
                b += "|template-array-argument" if obj else "|numeric-array"
            out.violations.append(Violation(b, "generation %d: dumps raised %s: %s\nsource:\n%s" % (
                gen, type(e).__name__, e, cur_text)))
            return out
        nxt, e = K.safe_loads(t)
        if e is not None:
            out.violations.append(Violation(exc_bucket("reload", e) + "|" + _err_class(e),
                                            "generation %d: serialised text does not load: %s: %s\nserialised:\n%s\nsource:\n%s" % (
                                                gen, type(e).__name__, e, t, cur_text)))
            return out
        with canon.strict_zero_sign():
            mm = canon.compare_programs(cur, nxt)
        for m in mm:
            if m.cls == "parameters":
                lost = set(cur.parameters) - set(nxt.parameters)
                extra = set(nxt.parameters) - set(cur.parameters)
                if lost and not extra and not (lost & _params_in_operations(cur)):
                    m.cls = "parameters:only-in-variables-no-operation-uses"
        if mm:
            out.violations.extend(K.mismatch_violations("roundtrip", mm, "%s\nserialised as:\n%s" % (cur_text, t)))
            return out
        cur, cur_text = nxt, t
    return out


def _err_class(e):
    msg = str(e)
    for key in ("is not defined", "np.", "extraneous", "mismatched", "no viable", "missing", "not a valid", "not of declared type"):
        if key in msg:
            return key.strip()
    return "other"

"""C02 -- loading a script yields exactly the program the script denotes."""
from hypothesis import strategies as st

from ..model import ast as A, strategies as S
from ..run import Outcome, Violation, exc_bucket, sha
from .. import canon
from ..valuecmp import IllConditioned
from . import common as K

ID = "C02"
RULE = ("Hypothesis constructs parameter-free script models (metadata with/without target/type and option dictionaries, "
        "typed scalars, arrays, redeclarations, statements with any bracket style for modes incl. unbalanced ones, optional "
        "trailing comma, positional/keyword/list arguments, Measure* operations, for-loops) rendered with generated spacing; "
        "an independent reference interpreter (bbv/model/refsem.py) computes the denoted program; blackbird.loads (for a third "
        "of the cases blackbird.load of a file whose previous version was loaded from the same path just before) must return "
        "the same name/version/target/type/options (keys in written order), one operation per executed statement in order, "
        "modes as Integral in order, arguments literal-exact / computed within 1e-12, mode set and len(). Non-trivial = >=4 "
        "statements, a variable referenced >=2 items after its declaration, and one of {loop, options, list kwarg}. "
        "Distinct = SHA-1 of the script text. Keyword arguments with an empty list are not generated (the repository's own "
        "test pins that they are dropped).")
ASSUMPTIONS = ["reference interpreter bbv/model/refsem.py and mpmath reference arithmetic",
               "reference lexer self-check of the rendered text"]
BUDGET = {"quick": (2000, 4), "thorough": (64000, 16)}

CFG_Q = S.Cfg(ascii_only=False, max_items=8, depth=2)
CFG_T = S.Cfg(ascii_only=False, max_items=16, depth=3)


def strategy(tier):
    base = CFG_Q if tier == "quick" else CFG_T
    tdm = S.Cfg(ascii_only=False, max_items=base.max_items, depth=base.depth, tdm=True)
    return st.one_of(K.script_case(base), K.script_case(base), K.script_case(base), K.script_case(tdm))


dump_case, load_case = K.dump_case, K.load_case


def check(c):
    script = c["script"]
    try:
        ref = K.reference(script)
    except K.Discard as d:
        return Outcome(discard=d.reason)
    text = K.render_case(c)
    feats, nstmt = K.features(script)
    out = Outcome(key=text, sample={"script": text}, classes=sorted(feats))
    out.nontrivial = nstmt >= 4 and K.var_used_after_gap(script) and bool(feats & {"loop", "options", "list-kwarg"})
    via_file = text.isascii() and int(sha(text)[:2], 16) % 3 == 0
    if via_file:
        # the file entry point, always at the same path (rewritten for every case of this process)
        out.classes.append("load(path)")
        p, e = K.safe_load_text_via_file(text)
    else:
        p, e = K.safe_loads(text)
    if e is not None:
        out.violations.append(Violation(exc_bucket("load", e), "valid script refused: %s: %s\nscript:\n%s" % (type(e).__name__, e, text)))
        return out
    try:
        mm = canon.compare_ref(p, ref)
    except IllConditioned:
        return Outcome(discard="ill-conditioned")
    out.violations.extend(K.mismatch_violations("denotation", mm, text))
    return out

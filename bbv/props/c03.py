"""C03 -- expressions evaluate to their arithmetic value under the grammar's precedence."""
import warnings

from hypothesis import strategies as st

from ..model import ast as A, render, refsem, strategies as S, numeric as N
from ..model.numeric import OutOfDomain
from ..run import Outcome, Violation, exc_bucket, HarnessError
from .. import valuecmp as VC

ID = "C03"
RULE = ("Hypothesis builds a declaration context (int/float/complex scalars, int/float/complex arrays) and a surface "
        "expression (operands with prefix signs, binary operators, no implied brackets; literals in every lexical form; "
        "15 functions on in-domain arguments; A[k]); the script is rendered with generated spacing and loaded; the "
        "argument of G(<expr>) and the variable initialised with <expr> are compared with an mpmath reference evaluated "
        "on the tree given by the C03 binding order (relative 1e-12, integers exact and Integral). Non-trivial = two "
        "different binary operators adjacent without brackets, or a unary sign next to **, or division by a computed "
        "integer. Distinct = SHA-1 of the script text. Cases whose reference error bound exceeds 1e-14*|value| or that "
        "leave the stated domain (int64, real function domains, int**negative int, negative base with fractional "
        "exponent) are discarded and counted."
        " Scenario groups: exact quotients of integers used as exponents or scaled beyond the 64-bit range; the same"
        " script with every function argument made complex (x -> (x)+0j) and complex-typed declarations is loaded"
        " first (a function value does not depend on earlier evaluations).")
ASSUMPTIONS = ["mpmath 50-digit arithmetic and the first-order error bound of bbv/model/numeric.py",
               "precedence as stated in C03: brackets, unary sign, right-assoc **, * /, + -",
               "reference lexer derived from blackbird.g4 agrees with the shipped lexer (checked by C14)"]
BUDGET = {"quick": (4000, 4), "thorough": (160000, 16)}


@st.composite
def case(draw, depth):
    ctx = S.Ctx(depth=depth)
    decls = []
    ctx.depth = 1
    for _ in range(draw(st.integers(0, 5))):
        if draw(st.integers(0, 2)) == 0:
            decls.append(draw(S.array_decl(ctx)))
        else:
            d = draw(S.scalar_decl(ctx))
            if d.vtype in ("bool", "str"):
                S._forget(ctx, d.name)
                continue
            decls.append(d)
    ctx.depth = depth
    kind = draw(st.sampled_from(["any", "any", "real", "int"]))
    redecl = None
    if ctx.arrays and draw(st.integers(0, 3)) == 0:
        # read an element, declare the array again (other shape/contents), read again
        redecl = draw(st.sampled_from(sorted(ctx.arrays)))
        vt = ctx.arrays[redecl][0]
        rd = A.ScalarDecl("complex", draw(S.ident().filter(lambda n: n not in ctx.used)),
                          A.Flat([A.Operand("", draw(S.index_of(ctx, redecl)))], []))
        ctx.used.add(rd.name)
        ctx.complexes.append(rd.name)
        decls.append(rd)
        S._forget(ctx, redecl)
        decls.append(draw(S.array_decl(ctx, name=redecl)))
        if ctx.arrays[redecl][0] == "complex":
            kind = "any"
        elif ctx.arrays[redecl][0] == "float" and kind == "int":
            kind = "real"
    if kind == "int":
        e = draw(S.int_expr(ctx, depth))
    else:
        e = draw(S.num_expr(ctx, depth, kind))
    if kind != "int" and draw(st.integers(0, 7)) == 0:
        # a function value that is small in magnitude (tiny argument, or an argument next to a zero of the function)
        fn = draw(st.sampled_from(["sin", "tan", "arctan", "tanh", "arcsinh", "sinh", "cos", "sin", "arcsin", "arctanh", "log", "exp"]))
        tiny = A.Num("float", "%de-%d" % (draw(st.integers(1, 9)), draw(st.integers(2, 9))))
        if fn == "cos":
            arg = A.Flat([A.Operand("", S.PI), A.Operand("", A.Num("int", "2")), A.Operand("", tiny)], ["/", draw(st.sampled_from(["+", "-"]))])
        elif fn == "log":
            arg = A.Flat([A.Operand("", A.Num("int", "1")), A.Operand("", tiny)], ["+"])
        elif fn == "exp":
            arg = S.F1(tiny, "-")
        elif fn in ("sin", "tan") and draw(st.booleans()):
            arg = A.Flat([A.Operand("", S.PI), A.Operand("", tiny)], [draw(st.sampled_from(["+", "-"]))])
        else:
            arg = S.F1(tiny, draw(st.sampled_from(["", "-"])))
        call = A.Operand(draw(st.sampled_from(["", "-"])), A.Fn(fn, arg))
        e = A.Flat([call], []) if draw(st.booleans()) else A.Flat([call, A.Operand("", draw(S.num_float()))], [draw(st.sampled_from(["*", "/"]))])
    if kind == "any" and draw(st.integers(0, 9)) == 0:
        # a complex value with a tiny imaginary (or real) part, possibly scaled back up
        tc = draw(S.tiny_complex())
        e = A.Flat([A.Operand("", tc)], []) if draw(st.booleans()) else \
            A.Flat([A.Operand("", tc), A.Operand("", A.Num("float", draw(st.sampled_from(["1e15", "3e20", "2.5e13"]))))], ["*"])
    if kind != "int" and draw(st.integers(0, 9)) == 0:
        # integers beyond 2**53 that nearly cancel, in one +/- chain with a float term: integer arithmetic must stay exact
        n = draw(st.integers(2 ** 53, 2 ** 62))
        d = draw(st.integers(1, 9))
        fl = draw(S.num_float())
        chain = [A.Operand("", A.Num("int", str(n + d))), A.Operand("", A.Num("int", str(n))), A.Operand("", fl)]
        ops_ = ["-", draw(st.sampled_from(["+", "-"]))]
        if draw(st.booleans()):
            chain = [chain[2], chain[0], chain[1]]
            ops_ = ["+", "-"]
        e = A.Flat(chain + e.operands[:1], ops_ + ["+"]) if draw(st.booleans()) else A.Flat(chain, ops_)
    if kind != "int" and draw(st.integers(0, 11)) == 0:
        # an exact quotient of integers is still a true division: used as a negative exponent, under a negative exponent, or
        # scaled beyond the 64-bit integer range afterwards
        I = lambda v: A.Operand("", A.Num("int", str(v)))
        b_ = draw(st.integers(2, 9))
        q_ = draw(st.integers(2, 6))
        form = draw(st.integers(0, 3))
        if form == 0:
            e = A.Flat([A.Operand("", A.Paren(A.Flat([I(b_ * q_), I(b_)], ["/"]))), A.Operand("-", A.Num("int", str(draw(st.integers(1, 3)))))], ["**"])
        elif form == 1:
            e = A.Flat([I(draw(st.integers(2, 5))), A.Operand("-", A.Paren(A.Flat([I(b_ * q_), I(b_)], ["/"])))], ["**"])
        elif form == 2:
            e = A.Flat([A.Operand("", A.Paren(A.Flat([I(10), I(18)], ["**"]))), I(10), I(draw(st.sampled_from([100, 1000, 93])))], ["/", "*"])
        else:
            e = A.Flat([I(b_ * q_ * 10 ** 17), I(b_), I(draw(st.sampled_from([7, 50, 1000])))], ["/", "*"])
    if redecl is not None:
        e = A.Flat([A.Operand("", draw(S.index_of(ctx, redecl)))] + e.operands, [draw(st.sampled_from(["+", "-", "*"]))] + e.ops)
    gaps = draw(st.lists(st.integers(0, 2), min_size=1, max_size=6))
    return {"decls": decls, "expr": e, "gaps": gaps}


def strategy(tier):
    return st.one_of(case(3), case(5)) if tier == "quick" else st.one_of(case(3), case(6), case(9))


def dump_case(c):
    return A.dump(c)


def load_case(j):
    return A.load(j)


def build(c, expr=None, vtype="complex"):
    e = expr if expr is not None else c["expr"]
    items = list(c["decls"])
    items.append(A.ScalarDecl(vtype, "res_", e))
    items.append(A.Stmt("G", A.Args([e], [["k", e]], False), [S.F1(A.Num("int", "0"))]))
    return A.Script("c03", "1.0", None, None, [], items)


def _nontrivial(flat, env):
    def flats(f):
        yield f
        for p in A.walk_prims(f):
            if isinstance(p, (A.Paren, A.Fn)):
                yield p.e
            elif isinstance(p, A.Idx):
                yield p.index
    for f in flats(flat):
        for i in range(len(f.ops) - 1):
            if f.ops[i] != f.ops[i + 1]:
                return True
        for i, op in enumerate(f.ops):
            if op == "**" and (f.operands[i].signs or f.operands[i + 1].signs):
                return True
    return _div_by_computed_int(A.tree(flat) if isinstance(flat, A.Flat) else flat, env)


def _div_by_computed_int(t, env):
    if isinstance(t, A.Flat):
        return _div_by_computed_int(A.tree(t), env)
    if isinstance(t, A.TBin):
        if t.op == "/" and not isinstance(t.r, A.Num):
            try:
                v = refsem.ev(t.r, env, {})
                if v.kind == "int":
                    return True
            except Exception:
                pass
        return _div_by_computed_int(t.l, env) or _div_by_computed_int(t.r, env)
    if isinstance(t, A.TSign):
        return _div_by_computed_int(t.e, env)
    if isinstance(t, (A.Paren, A.Fn)):
        return _div_by_computed_int(t.e, env)
    if isinstance(t, A.Idx):
        return _div_by_computed_int(t.index, env)
    return False


def untree(t):
    """Fully bracketed surface form of a tree node (for culprit localisation)."""
    if isinstance(t, A.Flat):
        return t
    if isinstance(t, A.TSign):
        return A.Flat([A.Operand(t.op, A.Paren(untree(t.e)))], [])
    if isinstance(t, A.TBin):
        return A.Flat([A.Operand("", A.Paren(untree(t.l))), A.Operand("", A.Paren(untree(t.r)))], [t.op])
    return A.Flat([A.Operand("", t)], [])


def subtrees(t, out):
    if isinstance(t, A.Flat):
        subtrees(A.tree(t), out)
        return
    if isinstance(t, A.TSign):
        subtrees(t.e, out)
    elif isinstance(t, A.TBin):
        subtrees(t.l, out)
        subtrees(t.r, out)
    elif isinstance(t, (A.Paren, A.Fn)):
        subtrees(t.e, out)
    elif isinstance(t, A.Idx):
        subtrees(t.index, out)
    out.append(t)


def node_sig(t, env):
    def k(x):
        try:
            return refsem.ev(x, env, {}).kind
        except Exception:
            return "?"
    if isinstance(t, A.TBin):
        return "%s(%s,%s)" % (t.op, k(t.l), k(t.r))
    if isinstance(t, A.TSign):
        return "sign%s(%s)" % (t.op, k(t.e))
    if isinstance(t, A.Fn):
        return "%s(%s)" % (t.name, k(t.e))
    if isinstance(t, A.Num):
        return "literal-%s" % t.kind
    if isinstance(t, A.Idx):
        return "index"
    return type(t).__name__


def evaluate_one(c, e):
    """Load a script for expression e; returns (ref V, actual positional, actual keyword, actual variable, exception)."""
    script = build(c, e)
    ref = refsem.run(script)
    rv = ref.ops[0].args[0]
    import blackbird
    text = render.render(script, render.Layout(gaps=c["gaps"]))
    with warnings.catch_warnings():
        warnings.simplefilter("ignore")
        p = blackbird.loads(text)
    return rv, p.operations[0]["args"][0], p.operations[0]["kwargs"]["k"], p.variables["res_"], text


def compare(rv, act):
    return VC.num_matches(rv, act, 1e-12)


def localise(c):
    """Culprit signature: first declaration / smallest sub-expression whose value mismatches."""
    for i, d in enumerate(c["decls"]):
        inits = [d.init] if isinstance(d, A.ScalarDecl) else [e for r in d.rows for e in r]
        for e in inits:
            sub = {"decls": c["decls"][:i], "expr": e, "gaps": c["gaps"]}
            sig = _localise_expr(sub)
            if sig != "whole-expression-only":
                return "decl:" + sig
    return _localise_expr(c)


def _localise_expr(c):
    nodes = []
    subtrees(c["expr"], nodes)
    script = build(c)
    env = refsem.run(script).variables
    for t in nodes:
        try:
            rv, a, _, _, _ = evaluate_one(c, untree(t))
        except OutOfDomain:
            continue
        except Exception as e:
            return "exc:%s@%s" % (type(e).__name__, node_sig(t, env))
        try:
            if compare(rv, a) is not None:
                return node_sig(t, env)
        except VC.IllConditioned:
            continue
    try:
        rv, a, _, _, _ = evaluate_one(c, c["expr"])
        if compare(rv, a) is None:
            return "whole-expression-only"
        return "surface-form"
    except OutOfDomain:
        return "whole-expression-only"
    except VC.IllConditioned:
        return "whole-expression-only"
    except Exception as e:
        return "exc:%s@surface-form" % type(e).__name__


def _decl_prims(d):
    inits = [d.init] if isinstance(d, A.ScalarDecl) else [e for r in d.rows for e in r]
    for e in inits:
        if isinstance(e, A.Flat):
            yield from A.walk_prims(e)


def _complex_twin(c):
    def cx(p):
        if isinstance(p, A.Fn):
            return A.Fn(p.name, A.Flat([A.Operand("", A.Paren(p.e)), A.Operand("", A.Num("complex", "0j"))], ["+"]))
        return p

    def ty(t):
        return "complex" if t in ("int", "float") else t
    decls = []
    for d in c["decls"]:
        if isinstance(d, A.ScalarDecl):
            decls.append(A.ScalarDecl(ty(d.vtype), d.name, A.map_flat(d.init, cx) if isinstance(d.init, A.Flat) else d.init))
        elif isinstance(d, A.ArrayDecl):
            decls.append(A.ArrayDecl(ty(d.vtype), d.name, d.shape, [[A.map_flat(e, cx) if isinstance(e, A.Flat) else e for e in r] for r in d.rows]))
        else:
            decls.append(d)
    return build({"decls": decls, "expr": A.map_flat(c["expr"], cx)})


def check(c):
    script = build(c)
    try:
        ref = refsem.run(script)
    except OutOfDomain as e:
        return Outcome(discard="domain:" + e.reason)
    except refsem.RefModelError as e:
        return Outcome(discard="generator-invalid-model")
    rv = ref.ops[0].args[0]
    if not isinstance(rv, N.V):
        raise HarnessError("C03: non numeric reference %r" % (rv,))
    if not rv.well_conditioned():
        return Outcome(discard="ill-conditioned")
    try:
        text = render.render(script, render.Layout(gaps=c["gaps"]))
    except render.RenderError as e:
        raise HarnessError("C03 render: %s" % e)
    env = ref.variables
    out = Outcome(key=text, sample={"script": text, "reference": N.mp.nstr(rv.as_mp(), 17)})
    out.nontrivial = _nontrivial(c["expr"], env)
    out.classes = ["kind:" + rv.kind]
    if c["decls"]:
        out.classes.append("uses-declarations")
    prims = list(A.walk_prims(c["expr"]))
    if any(isinstance(p, A.Fn) for p in prims):
        out.classes.append("function")
    if any(isinstance(p, A.Idx) for p in prims):
        out.classes.append("array-index")
    if any(isinstance(p, A.Num) and p.kind == "complex" for p in prims):
        out.classes.append("complex-literal")
    if "**" in c["expr"].ops:
        out.classes.append("power")
    import blackbird
    if any(isinstance(p, A.Fn) for p in prims) or any(isinstance(q, A.Fn) for d in c["decls"] for q in _decl_prims(d)):
        # the value of a function call does not depend on what was evaluated before: the same script with every function
        # argument written as a complex number (x -> (x)+0j) and every declaration complex-typed is loaded first
        out.classes.append("primed-with-complex-twin")
        try:
            twin = render.render(_complex_twin(c), render.Layout(gaps=c["gaps"]))
            with warnings.catch_warnings():
                warnings.simplefilter("ignore")
                blackbird.loads(twin)
        except RecursionError:
            raise
        except Exception:
            pass
    try:
        with warnings.catch_warnings():
            warnings.simplefilter("ignore")
            p = blackbird.loads(text)
    except Exception as e:
        out.violations.append(Violation(exc_bucket("load", e),
                                        "in-domain expression refused: %s: %s\nscript:\n%s" % (type(e).__name__, e, text),
                                        refine=lambda: localise(c)))
        return out
    a_pos = p.operations[0]["args"][0]
    a_kw = p.operations[0]["kwargs"]["k"]
    a_var = p.variables["res_"]
    for label, act in (("positional", a_pos), ("keyword", a_kw)):
        try:
            m = compare(rv, act)
        except VC.IllConditioned:
            return Outcome(discard="ill-conditioned")
        if m is not None:
            out.violations.append(Violation("value|%s|%s" % (label, m.cls),
                                            "%s argument: %s\nscript:\n%s" % (label, m.msg, text),
                                            refine=lambda: localise(c)))
            return out
    # every declared numeric scalar holds its reference value (declaration path)
    for d in c["decls"]:
        if isinstance(d, A.ScalarDecl) and d.name in ref.variables and isinstance(ref.variables[d.name], N.V) and \
                [x.name for x in c["decls"] if isinstance(x, (A.ScalarDecl, A.ArrayDecl))].count(d.name) == 1:
            try:
                m = VC.num_matches(ref.variables[d.name], p.variables.get(d.name), 1e-12, strict_int=True)
            except VC.IllConditioned:
                m = None
            if m is not None:
                out.violations.append(Violation("declared-variable|%s|%s" % (d.vtype, m.cls),
                                                "variable %s: %s\nscript:\n%s" % (d.name, m.msg, text)))
                return out
    # the variable initialiser path: stored as complex(value)
    try:
        m = VC.num_matches(N.cast("complex", rv), a_var, 1e-12, strict_int=False)
    except VC.IllConditioned:
        m = None
    if m is not None or not isinstance(a_var, complex):
        out.violations.append(Violation("variable|%s" % (m.cls if m else "type"),
                                        "complex variable initialised with the expression: %s\nscript:\n%s" % (
                                            m.msg if m else type(a_var), text)))
    return out

"""C04 -- instantiating a template equals substituting values into its text."""
import numbers

import numpy as np
from hypothesis import strategies as st

from ..model import ast as A, strategies as S, refsem, numeric as N, render
from ..run import Outcome, Violation, exc_bucket, HarnessError
from .. import canon
from . import common as K

ID = "C04"
RULE = ("Hypothesis constructs template scripts with {name} parameters in positional/keyword arguments (inside expressions), float "
        "scalar initialisers later used in expressions, bare {p} array elements at any positions (repeated and distinct names), "
        "whole arrays 'T array A[r, c] = {U}', arrays passed whole or by element, loop bodies, plus a value per parameter "
        "(int for int-array slots, real for float slots, otherwise real or complex; 2-D list/ndarray for array-valued ones). "
        "Oracle: loads(T)(**vals) has the same operations and variables (numerically, relative 1e-9, same shapes) as "
        "loads(text with every {p} replaced by its bracketed literal); parameters == written names (array-valued expanded per "
        "element), is_template iff non-empty, the instance has no parameters and no SymPy object, dropping one value raises "
        "ValueError. Non-trivial = >=2 parameters with one in a non-positional slot (keyword, scalar initialiser, array element, "
        "whole array, loop body). Distinct = SHA-1 of template text + values. Cases where the substituted script leaves the "
        "arithmetic domain (division by zero, ...) or a parameter cancels identically are discarded and counted."
        " A quarter of the templates is array-heavy (whole-array parameters); before the instantiation proper the"
        " template is instantiated with look-alike values (equal numbers of the other type 1/1.0; arrays moved by"
        " 3e-9), which must not affect the result.")
ASSUMPTIONS = ["values whose reference error bound exceeds 1e-11 relative are not compared (catastrophic cancellation)",
               "parameter names exclude Python keywords (the public API is template(**values))"]
BUDGET = {"quick": (1600, 4), "thorough": (26000, 16)}


def _cfg(tier, arrays=False, tdm=False):
    return S.Cfg(max_items=12 if tier != "quick" else 7, depth=3 if tier != "quick" else 2, params=True, options=False, tdm=tdm,
                 ascii_only=False, whole_array_odds=0 if arrays else 1, complex_coefficients=True, array_weight=4 if arrays else 1)


def param_slots(script):
    """name -> {'kind': 'int'|'real'|'any', 'array': (vtype, r, c) | None, 'slots': set}"""
    info = {}

    def note(name, kind, slot):
        d = info.setdefault(name, {"kind": "any", "array": None, "slots": set()})
        d["slots"].add(slot)
        order = {"any": 0, "real": 1, "int": 2}
        if order[kind] > order[d["kind"]]:
            d["kind"] = kind

    def scan(v, kind, slot):
        for x in (v.items if isinstance(v, A.ListVal) else [v]):
            if isinstance(x, A.Flat):
                for p in A.walk_prims(x):
                    if isinstance(p, A.Param):
                        note(p.name, kind, slot)

    for it in script.items:
        if isinstance(it, A.ScalarDecl):
            scan(it.init, "real", "scalar-initialiser")
        elif isinstance(it, A.ArrayDecl):
            kind = {"int": "int", "float": "real", "complex": "any"}[it.vtype]
            for r in it.rows:
                for e in r:
                    scan(e, kind, "array-element")
        elif isinstance(it, A.ArrayParamDecl):
            d = info.setdefault(it.pname, {"kind": "any", "array": None, "slots": set()})
            if d["array"] is not None and d["array"] != (it.vtype, int(it.shape[0]), int(it.shape[1])):
                d["slots"].add("whole-array-twice")      # one parameter, two different array shapes: no single value fits
            d["array"] = (it.vtype, int(it.shape[0]), int(it.shape[1]))
            d["slots"].add("whole-array")
        elif isinstance(it, (A.Stmt, A.For)):
            for st_ in (it.body if isinstance(it, A.For) else [it]):
                if st_.args is None:
                    continue
                slot_p = "loop-body" if isinstance(it, A.For) else "positional"
                slot_k = "loop-body" if isinstance(it, A.For) else "keyword"
                for v in st_.args.pos:
                    scan(v, "real", slot_p)
                for _, v in st_.args.kwargs:
                    scan(v, "real", slot_k)
    return info


def _real_value():
    return st.one_of(
        st.floats(min_value=-4.0, max_value=4.0, allow_nan=False).filter(lambda x: abs(x) > 1e-3),
        st.integers(-5, 5).filter(lambda x: x != 0),
        st.sampled_from([0.5, 1.5, 2.0, -1.25, 3.0, 1e-3, 1e3]),
    )


@st.composite
def case(draw, tier):
    sel = draw(st.integers(0, 7))
    # a quarter of the templates is array-heavy, an eighth is a tdm program (p-arrays by name, parameters spelt like them)
    script = draw(S.script(_cfg(tier, arrays=sel in (0, 1), tdm=sel == 2)))
    info = param_slots(script)
    vals = {}
    for name in sorted(info):
        d = info[name]
        if d["array"] is not None and len(d["slots"]) > 1:
            # one name used both as whole array and as scalar: not a meaningful template
            vals[name] = None
            continue
        if d["array"] is not None:
            vt, r, c = d["array"]
            el = {"int": st.integers(-9, 9), "float": _real_value(),
                  "complex": st.one_of(_real_value(), st.complex_numbers(max_magnitude=4, allow_nan=False, allow_infinity=False))}[vt]
            rows = [[draw(el) for _ in range(c)] for _ in range(r)]
            vals[name] = {"array": rows, "ndarray": draw(st.sampled_from([True, True, False])), "memory": draw(st.sampled_from(["C", "F", "transposed-view", "reversed-view"]))}
        elif d["kind"] == "int":
            vals[name] = draw(st.integers(-6, 6))
        elif d["kind"] == "real" or draw(st.integers(0, 3)) > 0:
            vals[name] = draw(_real_value())
        else:
            vals[name] = draw(st.complex_numbers(min_magnitude=0.1, max_magnitude=4, allow_nan=False, allow_infinity=False))
    drop = draw(st.integers(0, max(0, len(vals) - 1)))
    return {"script": script, "layout": draw(K.layout_light()), "values": vals, "drop": drop}


def strategy(tier):
    return case(tier)


dump_case, load_case = K.dump_case, K.load_case


def substitute(script, vals):
    def fn(p):
        if isinstance(p, A.Param):
            return A.number_literal(vals[p.name])
        return p

    def item_fn(it):
        if isinstance(it, A.ArrayParamDecl):
            rows = vals[it.pname]["array"]
            return A.ArrayDecl(it.vtype, it.name, it.shape, [[A.Flat([A.Operand("", A.number_literal(x))], []) for x in r] for r in rows])
        return None
    return A.map_script(script, fn, item_fn)


def _call_kwargs(vals):
    kw = {}
    for k, v in vals.items():
        if isinstance(v, dict):
            if v["ndarray"]:
                a = np.array(v["array"])
                mem = v.get("memory", "C")
                if mem == "F":
                    a = np.asfortranarray(a)
                elif mem == "transposed-view":
                    a = np.ascontiguousarray(a.T).T
                elif mem == "reversed-view":
                    a = np.ascontiguousarray(a[::-1])[::-1]
                kw[k] = a
            else:
                kw[k] = [list(r) for r in v["array"]]
        else:
            kw[k] = v
    return kw


def _type_twin(kw):
    out = {}
    for k, v in kw.items():
        if isinstance(v, np.ndarray):
            out[k] = v.astype(float) if v.dtype.kind in "iu" else v.copy()
        elif isinstance(v, list):
            out[k] = [[float(x) if isinstance(x, int) and not isinstance(x, bool) else x for x in r] for r in v]
        elif isinstance(v, bool):
            out[k] = v
        elif isinstance(v, (int, np.integer)):
            out[k] = float(v)
        elif isinstance(v, (float, np.floating)) and float(v).is_integer() and abs(v) < 2 ** 53:
            out[k] = int(v)
        else:
            out[k] = v
    return out


def _near_twin(kw):
    """Array elements moved by 3e-9 (beyond the comparison tolerance for |x| < 3, below what NumPy prints); scalars unchanged."""
    f = 3e-9
    out = {}
    for k, v in kw.items():
        if isinstance(v, np.ndarray):
            out[k] = v + f if v.dtype.kind in "fc" else v.copy()
        elif isinstance(v, list):
            out[k] = [[x + f if isinstance(x, (float, complex)) else x for x in r] for r in v]
        else:
            out[k] = v
    return out


def check(c):
    script, vals = c["script"], c["values"]
    if any(v is None for v in vals.values()):
        return Outcome(discard="name-used-as-array-and-scalar-parameter")
    if not vals:
        return Outcome(discard="no-parameter-written")
    try:
        ref_t = K.reference(script)
        sub_script = substitute(script, vals)
        ref_s = K.reference(sub_script)
    except K.Discard as d:
        return Outcome(discard=d.reason)
    text = K.render_case(c)
    try:
        sub_text = render.render(sub_script, K.to_layout(c["layout"]))
    except render.RenderError as e:
        raise HarnessError("render: %s" % e)
    feats, nstmt = K.features(script)
    info = param_slots(script)
    slots = set()
    for d in info.values():
        slots |= d["slots"]
    out = Outcome(key=text + repr(sorted(vals.items(), key=str)), classes=sorted(feats | {"slot:" + s for s in slots}),
                  sample={"template": text, "values": {k: repr(v) for k, v in vals.items()}})
    out.nontrivial = len(vals) >= 2 and bool(slots - {"positional"})
    for v_ in vals.values():
        if isinstance(v_, dict) and v_["ndarray"] and v_.get("memory", "C") != "C" and len(v_["array"]) > 1 and len(v_["array"][0]) > 1:
            out.classes.append("array-valued-parameter:non-contiguous-ndarray>=2x2")
            break
    T, e = K.safe_loads(text)
    if e is not None:
        out.violations.append(Violation(exc_bucket("load-template", e), "template refused: %s: %s\n%s" % (type(e).__name__, e, text)))
        return out
    # reported parameters
    want = set(ref_t.params)
    if set(T.parameters) != want:
        # a parameter whose symbol cancels is still "written"; nothing else may differ
        out.violations.append(Violation("parameters|reported-set", "parameters=%r, written=%r\n%s" % (sorted(T.parameters), sorted(want), text)))
        return out
    if bool(T.is_template()) != bool(want):
        out.violations.append(Violation("parameters|is_template", "is_template()=%r with parameters %r\n%s" % (T.is_template(), sorted(want), text)))
        return out
    if not want:
        return Outcome(discard="no-parameter-evaluated (only in loop bodies that run zero times)")
    live = _live_symbols(T)
    if want - live:
        # a parameter that cancels identically, or whose only holder was declared again, occurs nowhere in the program
        return Outcome(discard="parameter-without-occurrence-in-program")
    kw = _call_kwargs(vals)
    # the template is instantiated with look-alike values first: equal numbers of another type (1 / 1.0), and values that
    # differ only from the 9th significant digit on (arrays) -- the instance for the generated values must not be affected
    for twin in (_type_twin(kw), _near_twin(kw)):
        try:
            T(**twin)
        except RecursionError:
            raise
        except Exception:
            pass
    try:
        inst = T(**kw)
    except Exception as e2:
        out.violations.append(Violation(exc_bucket("instantiate", e2), "template(**values) raised %s: %s\nvalues=%r\n%s" % (type(e2).__name__, e2, kw, text)))
        return out
    if inst.parameters or inst.is_template():
        out.violations.append(Violation("instance|parameters-left", "instance.parameters=%r\n%s" % (inst.parameters, text)))
    leftovers = [o["op"] for o in inst.operations if canon.contains_sympy(o.get("args", [])) or canon.contains_sympy(o.get("kwargs", {}))]
    leftovers += [k for k, v in inst.variables.items() if canon.contains_sympy(v)]
    if leftovers:
        out.violations.append(Violation("instance|sympy-left", "symbolic objects left in %r after instantiation\nvalues=%r\n%s" % (leftovers, kw, text)))
        return out
    sub, e = K.safe_loads(sub_text)
    if e is not None:
        # the substituted text is a plain script; C02 covers its loading
        return Outcome(discard="substituted-load-failed:" + type(e).__name__)
    mm = []
    if len(inst.operations) != len(sub.operations):
        mm.append(canon.Mismatch("op-count", "%d vs %d" % (len(inst.operations), len(sub.operations))))
    for i, (a, b, r) in enumerate(zip(inst.operations, sub.operations, ref_s.ops)):
        if a["op"] != b["op"] or [int(m) for m in a["modes"]] != [int(m) for m in b["modes"]]:
            mm.append(canon.Mismatch("op-head", "op %d: %r vs %r" % (i, a, b)))
            continue
        aa, ba = a.get("args"), b.get("args")
        if (aa is None) != (ba is None) or (aa is not None and len(aa) != len(ba)):
            mm.append(canon.Mismatch("op-args-shape", "op %d: %r vs %r" % (i, a, b)))
            continue
        if aa is None:
            continue
        for x, y, rv in zip(aa, ba, r.args or []):
            if _weak(rv):
                continue
            canon.values_close(x, y, "arg", mm)
        ak, bk = a.get("kwargs") or {}, b.get("kwargs") or {}
        if list(ak) != list(bk):
            mm.append(canon.Mismatch("op-kwarg-keys", "op %d: %r vs %r" % (i, list(ak), list(bk))))
            continue
        rk = dict(r.kwargs or [])
        for k in ak:
            if _weak(rk.get(k)):
                continue
            canon.values_close(ak[k], bk[k], "kwarg", mm)
    if set(inst.variables) != set(sub.variables):
        mm.append(canon.Mismatch("variable-names", "%r vs %r" % (sorted(inst.variables), sorted(sub.variables))))
    else:
        for k in inst.variables:
            if _weak(ref_s.variables.get(k)):
                continue
            canon.values_close(inst.variables[k], sub.variables[k], "variable", mm)
    if mm:
        out.violations.extend(K.mismatch_violations("instantiate-vs-substitute", mm,
                                                    "%s\nvalues=%r\nsubstituted text:\n%s" % (text, kw, sub_text)))
        return out
    # a missing value is refused with ValueError
    names = sorted(k for k, v in vals.items() if (k in want if not isinstance(v, dict) else any(w.startswith(k + "_") for w in want)))
    if not names:
        return out
    dropped = names[c["drop"] % len(names)]
    kw2 = {k: v for k, v in kw.items() if k != dropped}
    try:
        T(**kw2)
        out.violations.append(Violation("missing-value|accepted", "template called without %r returned a program\n%s" % (dropped, text)))
    except ValueError:
        pass
    except Exception as e3:
        out.violations.append(Violation("missing-value|" + exc_bucket("call", e3), "template called without %r raised %s: %s (ValueError expected)\n%s" % (
            dropped, type(e3).__name__, e3, text)))
    return out


def _live_symbols(p):
    import sympy as sym
    names = set()

    def visit(v):
        if isinstance(v, sym.Basic):
            names.update(str(s) for s in v.free_symbols)
        elif isinstance(v, np.ndarray) and v.dtype == object:
            for x in v.flatten():
                visit(x)
        elif isinstance(v, (list, tuple)):
            for x in v:
                visit(x)
        elif isinstance(v, dict):
            for x in v.values():
                visit(x)
    for o in p.operations:
        visit(o.get("args", []))
        visit(o.get("kwargs", {}))
    visit(p.variables)
    return names


def _weak(rv):
    """Reference says the value is dominated by cancellation: do not compare it."""
    if isinstance(rv, N.V):
        return rv.kind != "int" and (rv.v == 0 and rv.err > 0 or rv.err > N.mpf("1e-11") * rv.mag)
    if isinstance(rv, refsem.RList):
        return any(_weak(x) for x in rv.items)
    if isinstance(rv, refsem.RArray):
        return any(_weak(x) for x in rv.flat())
    return False

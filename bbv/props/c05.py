"""C05 -- variables have their declared type; arrays keep written layout and shape."""
import numbers

import numpy as np
from hypothesis import strategies as st

from ..model import ast as A, strategies as S, refsem, numeric as N
from ..run import Outcome, Violation, exc_bucket
from .. import canon
from ..valuecmp import IllConditioned
from . import common as K

ID = "C05"
RULE = ("Hypothesis constructs scripts dominated by declarations: int/float/complex/bool/str scalars with type-compatible "
        "parameter-free initialisers, int/float/complex arrays 1..4 x 1..5 with/without declared shape, with/without bare "
        "{p} elements, twins with equal elements in another shape, redeclarations, and statements reading A[k] for in-range "
        "k (index expressions included). Oracle (reference model): each scalar has exactly its declared Python type and "
        "the reference value; each array is 2-D with the written shape, element (r,c) = c-th entry of r-th row (or the "
        "parameter written there), dtype kind of the declared type (object only with parameters); A[k] delivers element "
        "divmod(k, cols). Negative variants (ragged rows made by moving elements between rows; declared shape != written "
        "shape incl. transposed and 1-D) must raise and return no program. Non-trivial = an array with >=2 rows and >=2 "
        "columns, or >=2 parameters among elements, or a negative variant. Distinct = SHA-1 of the script text.")
ASSUMPTIONS = ["reference interpreter; type-incompatible initialisers (int x = 2.5) are outside the stated domain and not generated"]
BUDGET = {"quick": (2400, 4), "thorough": (64000, 16)}

_PY = {"int": int, "float": float, "complex": complex, "bool": bool, "str": str}


def _cfg(tier, tdm=False):
    return S.Cfg(max_items=10 if tier != "quick" else 7, depth=2, params=True, sym_scalars=False, loops=False, options=False,
                 stmt_weight=1, ascii_only=False, tdm=tdm)


@st.composite
def case(draw, tier):
    # one script in six is a tdm program: its p<digits> arrays are passed by name but indexed like any other array
    script = draw(S.script(_cfg(tier, tdm=draw(st.integers(0, 5)) == 0)))
    arrays = [i for i, it in enumerate(script.items) if isinstance(it, A.ArrayDecl)]
    variant = None
    if arrays and draw(st.integers(0, 3)) == 0:
        idx = draw(st.sampled_from(arrays))
        it = script.items[idx]
        r, c = len(it.rows), len(it.rows[0])
        kind = draw(st.sampled_from(["ragged", "ragged", "shape"]))
        if kind == "ragged" and r * c >= 2 and (r >= 2 or c >= 2):
            flat = [e for row in it.rows for e in row]
            # choose a composition of len(flat) into >= 2 positive parts that are not all equal
            nrows = draw(st.integers(2, min(4, len(flat))))
            cuts = sorted(draw(st.lists(st.integers(1, len(flat) - 1), min_size=nrows - 1, max_size=nrows - 1, unique=True)))
            parts = [b - a for a, b in zip([0] + cuts, cuts + [len(flat)])]
            if draw(st.integers(0, 2)) == 0 and len(flat) >= 6:
                # unequal rows whose total still equals rows x first-row length (e.g. 2, 1, 3)
                f_ = draw(st.integers(2, max(2, len(flat) // 3)))
                n_ = len(flat) // f_
                if n_ >= 3 and n_ * f_ == len(flat):
                    parts = [f_] * n_
                    i_ = draw(st.integers(1, n_ - 2))
                    parts[i_] -= 1
                    parts[i_ + 1] += 1
            if len(set(parts)) > 1:
                variant = {"kind": "ragged", "item": idx, "parts": parts, "keep_shape": draw(st.booleans())}
        if variant is None:
            cand = [[c, r]] if r != c else []
            cand += [[r * c], [r + 1, c], [r, c + 1], [1, r * c + 1], [r, c, 1]]
            if r * c > 1:
                cand += [[r * c, 1]] if c != 1 else []
                cand += [[1, r * c]] if r != 1 else []
            variant = {"kind": "shape", "item": idx, "shape": [str(x) for x in draw(st.sampled_from(cand))]}
    return {"script": script, "layout": draw(K.layout_light()), "variant": variant}


def strategy(tier):
    return case(tier)


dump_case, load_case = K.dump_case, K.load_case


def apply_variant(script, v):
    items = list(script.items)
    it = items[v["item"]]
    if v["kind"] == "ragged":
        flat = [e for row in it.rows for e in row]
        rows, pos = [], 0
        for n in v["parts"]:
            rows.append(flat[pos:pos + n])
            pos += n
        items[v["item"]] = A.ArrayDecl(it.vtype, it.name, it.shape if v["keep_shape"] else None, rows)
    else:
        items[v["item"]] = A.ArrayDecl(it.vtype, it.name, v["shape"], it.rows)
    return A.Script(script.name, script.version, script.target, script.ptype, list(script.includes), items)


def check(c):
    script = c["script"]
    try:
        ref = K.reference(script)
    except K.Discard as d:
        return Outcome(discard=d.reason)
    feats, nstmt = K.features(script)
    v = c["variant"]
    if v is not None:
        bad = apply_variant(script, v)
        text = K.render_case({"script": bad, "layout": c["layout"]})
        out = Outcome(key=text, classes=sorted(feats | {"negative:" + v["kind"]}), nontrivial=True,
                      sample={"script": text, "expect": "refused (%s)" % v["kind"]})
        p, e = K.safe_loads(text)
        if e is None:
            it = bad.items[v["item"]]
            out.violations.append(Violation("accepted|%s" % v["kind"],
                                            "array %s with %s was accepted as %r\nscript:\n%s" % (
                                                it.name, "rows of lengths %r" % v["parts"] if v["kind"] == "ragged" else "declared shape %r" % v["shape"],
                                                p.variables.get(it.name), text)))
        return out
    text = K.render_case(c)
    out = Outcome(key=text, classes=sorted(feats), sample={"script": text})
    big = False
    nparam = 0
    for it in script.items:
        if isinstance(it, A.ArrayDecl):
            if len(it.rows) >= 2 and len(it.rows[0]) >= 2:
                big = True
                out.classes.append("array>=2x2")
            n = sum(1 for r in it.rows for e in r if len(e.operands) == 1 and isinstance(e.operands[0].prim, A.Param))
            nparam = max(nparam, n)
    out.nontrivial = big or nparam >= 2
    p, e = K.safe_loads(text)
    if e is not None:
        out.violations.append(Violation(exc_bucket("load", e), "valid script refused: %s: %s\nscript:\n%s" % (type(e).__name__, e, text)))
        return out
    mm = []
    decl_type = {}
    for it in script.items:
        if isinstance(it, A.ScalarDecl):
            decl_type[it.name] = it.vtype
        elif isinstance(it, (A.ArrayDecl, A.ArrayParamDecl)):
            decl_type[it.name] = "array"
    if set(p.variables) != set(ref.variables):
        mm.append(canon.Mismatch("variable-names", "expected %r, got %r" % (sorted(ref.variables), sorted(p.variables))))
    for name, rv in ref.variables.items():
        if name not in p.variables:
            continue
        act = p.variables[name]
        t = decl_type.get(name)
        if t in _PY:
            if type(act) is not _PY[t]:
                mm.append(canon.Mismatch("scalar-type:%s" % t, "variable %s declared %s holds %r of type %s" % (name, t, act, type(act).__name__)))
                continue
        try:
            canon.value_matches(rv, act, "variable-%s" % ("array" if t == "array" else "scalar"), mm)
        except IllConditioned:
            pass
    if not mm:
        try:
            mm = canon.compare_ref(p, ref)
        except IllConditioned:
            mm = []
    out.violations.extend(K.mismatch_violations("declaration", mm, text))
    return out

"""C06 -- a for-loop is equivalent to its textual unrolling."""
import numpy as np
from hypothesis import strategies as st

from ..model import ast as A, strategies as S, refsem, numeric as N, render
from ..run import Outcome, Violation, exc_bucket, HarnessError
from .. import canon
from ..valuecmp import IllConditioned
from . import common as K

ID = "C06"
RULE = ("Hypothesis constructs scripts with at least one for-loop: int/float ranges a:b and a:b:c (incl. empty and single-step), "
        "bracketed/parenthesised/bare lists of int, float, bool, str literals and expressions; bodies of 1..3 statements using "
        "the loop variable in modes, arguments, keyword arguments; declarations and statements before and after. Oracle "
        "(metamorphic + reference): operations of loads(loop script) equal exactly those of loads(unrolled script) where the "
        "body is written once per value with the loop variable replaced by the literal of the converted value, and equal the "
        "reference interpreter's operations; the loop variable is absent from variables afterwards. Negative variants: a "
        "statement after the loop mentioning the loop variable must raise BlackbirdSyntaxError; a listed value not of the loop "
        "type (1.5 for int, a string for float/int, 2 for bool, a number for str) must raise. Non-trivial = body >= 2 statements "
        "or a statement after the loop or an empty range. Distinct = SHA-1 of script text."
        " After the comparison the same in-place edit (first mode += 1000*(k+1) for operation k) is applied to both"
        " programs and the modes compared again (operations produced by a loop are separate objects).")
ASSUMPTIONS = ["reference interpreter", "loop-variable names are not declared elsewhere (as the property states)"]
BUDGET = {"quick": (1500, 4), "thorough": (40000, 16)}


def _cfg(tier):
    return S.Cfg(max_items=10 if tier != "quick" else 6, depth=2, min_loops=1, ascii_only=False, options=False)


@st.composite
def case(draw, tier):
    script = draw(S.script(_cfg(tier)))
    loops = [i for i, it in enumerate(script.items) if isinstance(it, A.For)]
    variant = None
    k = draw(st.integers(0, 7))
    if k == 0:
        variant = {"kind": "var-after-loop", "loop": draw(st.sampled_from(loops)),
                   "slot": draw(st.sampled_from(["arg", "kwarg", "mode", "expr"]))}
    elif k == 1:
        lists = [i for i in loops if isinstance(script.items[i].header, A.ForList)]
        if lists:
            i = draw(st.sampled_from(lists))
            variant = {"kind": "wrong-type", "loop": i, "pos": draw(st.integers(0, len(script.items[i].header.vals))),
                       "alt": draw(st.integers(0, 5))}
    if k == 2:
        variant = {"kind": "range-of-wrong-type", "loop": draw(st.sampled_from(loops)), "vtype": draw(st.sampled_from(["str", "bool", "str"])),
                   "b": draw(st.integers(3, 6)), "step": draw(st.sampled_from([None, None, 1, 2]))}
    return {"script": script, "layout": draw(K.layout_light()), "variant": variant}


def strategy(tier):
    return case(tier)


dump_case, load_case = K.dump_case, K.load_case


def literal_of(v):
    if isinstance(v, N.V):
        if v.kind == "int":
            return A.number_literal(v.v)
        return A.number_literal(float(v.v))
    raise TypeError(v)


def unroll(script, env_at):
    """Unrolled copy: each loop replaced by its body once per value (loop variable -> literal)."""
    items = []
    for idx, it in enumerate(script.items):
        if not isinstance(it, A.For):
            items.append(it)
            continue
        for val in refsem.loop_values(it, env_at[idx]):
            def fn(p, val=val, var=it.var):
                if isinstance(p, A.Var) and p.name == var:
                    return literal_of(val)
                return p

            def mapv(v, val=val, var=it.var):
                if isinstance(v, A.Flat) and len(v.operands) == 1 and not v.operands[0].signs and \
                        isinstance(v.operands[0].prim, A.Var) and v.operands[0].prim.name == var and not isinstance(val, N.V):
                    return A.Str(val.s) if isinstance(val, refsem.RStr) else A.Bool(val.b)
                if isinstance(v, A.ListVal):
                    return A.ListVal([mapv(x) for x in v.items])
                return A.map_val(v, fn)
            for s_ in it.body:
                args = None
                if s_.args is not None:
                    args = A.Args([mapv(v) for v in s_.args.pos], [[k, mapv(v)] for k, v in s_.args.kwargs], s_.args.trailing_comma)
                items.append(A.Stmt(s_.op, args, [A.map_flat(m, fn) for m in s_.modes], s_.lbr, s_.rbr))
    return A.Script(script.name, script.version, script.target, script.ptype, [], items)


def envs_before_items(script):
    """Reference environment in force before each item (for evaluating loop headers)."""
    envs = {}
    for idx, it in enumerate(script.items):
        if isinstance(it, A.For):
            partial = A.Script(script.name, script.version, None, None, [], script.items[:idx])
            envs[idx] = refsem.run(partial).variables
    return envs


def negative(script, v):
    items = list(script.items)
    loop = items[v["loop"]]
    if v["kind"] == "range-of-wrong-type":
        # for str s in 0:3 / for bool b in 0:3 -- the numbers 0, 1, 2 are not strings, 2 is not a boolean
        step = None if v["step"] is None or v["vtype"] == "bool" else str(v["step"])
        body = [A.Stmt("Body", A.Args([S.F1(A.Var("rv9"))], [], False), [S.F1(A.Num("int", "0"))])]
        items[v["loop"]] = A.For(v["vtype"], "rv9", A.Range("0", str(v["b"]), step), body)
        return A.Script(script.name, script.version, script.target, script.ptype, [], items), None
    if v["kind"] == "var-after-loop":
        ref = S.F1(A.Var(loop.var))
        zero = S.F1(A.Num("int", "0"))
        if v["slot"] == "arg":
            st_ = A.Stmt("After", A.Args([ref], [], False), [zero])
        elif v["slot"] == "kwarg":
            st_ = A.Stmt("After", A.Args([], [["k", ref]], False), [zero])
        elif v["slot"] == "mode":
            st_ = A.Stmt("After", None, [ref])
        else:
            st_ = A.Stmt("After", A.Args([A.Flat([A.Operand("", A.Num("int", "2")), A.Operand("", A.Var(loop.var))], ["*"])], [], False), [zero])
        items.insert(v["loop"] + 1, st_)
        return A.Script(script.name, script.version, script.target, script.ptype, [], items), loop.var
    wrong = {"int": [S.F1(A.Num("float", "1.5")), A.Str("a"), S.F1(A.Num("float", "2.00001")), S.F1(A.Num("complex", "1j")),
                     S.F1(A.Num("float", "1e-9")), S.F1(A.Num("float", "0.9999999999"))],
             "float": [A.Str("x"), A.Str("1.5"), S.F1(A.Num("complex", "2j")), A.Str(""), A.Str("inf"), S.F1(A.Num("complex", "1+1e-12j"))],
             "bool": [S.F1(A.Num("int", "2")), S.F1(A.Num("float", "0.5")), A.Str("True"), S.F1(A.Num("int", "7")),
                      S.F1(A.Num("float", "1e-9")), S.F1(A.Num("float", "0.99999999999"))],
             "str": [S.F1(A.Num("int", "1")), S.F1(A.Num("float", "2.5")), A.Bool(True), S.F1(A.Num("int", "0")), A.Bool(False), S.F1(A.Num("complex", "1j"))]
             }[loop.vtype][v["alt"] % 6]
    vals = list(loop.header.vals)
    vals.insert(v["pos"], wrong)
    items[v["loop"]] = A.For(loop.vtype, loop.var, A.ForList(vals, loop.header.lbr, loop.header.rbr), loop.body)
    return A.Script(script.name, script.version, script.target, script.ptype, [], items), None


def check(c):
    script = c["script"]
    try:
        ref = K.reference(script)
        envs = envs_before_items(script)
        flat = unroll(script, envs)
    except K.Discard as d:
        return Outcome(discard=d.reason)
    except N.OutOfDomain as e:
        return Outcome(discard="domain:" + e.reason)
    feats, nstmt = K.features(script)
    empty = any(isinstance(it, A.For) and not refsem.loop_values(it, envs[i]) for i, it in enumerate(script.items))
    after = False
    seen_loop = False
    for it in script.items:
        if isinstance(it, A.For):
            seen_loop = True
        elif seen_loop and isinstance(it, A.Stmt):
            after = True
    v = c["variant"]
    if v is not None:
        bad, var = negative(script, v)
        text = K.render_case({"script": bad, "layout": c["layout"]})
        out = Outcome(key=text, classes=sorted(feats | {"negative:" + v["kind"]}), nontrivial=True,
                      sample={"script": text, "expect": "refused (%s)" % v["kind"]})
        p, e = K.safe_loads(text)
        if e is None:
            out.violations.append(Violation("accepted|%s" % v["kind"], "script was accepted\n%s" % text))
        elif v["kind"] == "var-after-loop":
            if type(e).__name__ != "BlackbirdSyntaxError" or ("'%s'" % var) not in str(e):
                out.violations.append(Violation("loop-variable-visible|" + exc_bucket("load", e),
                                                "expected BlackbirdSyntaxError naming %r, got %s: %s\n%s" % (var, type(e).__name__, e, text)))
        return out
    text = K.render_case(c)
    try:
        flat_text = render.render(flat, K.to_layout(c["layout"]))
    except render.RenderError as e:
        raise HarnessError("render: %s" % e)
    out = Outcome(key=text, classes=sorted(feats | ({"empty-range"} if empty else set()) | ({"statement-after-loop"} if after else set())),
                  sample={"script": text})
    out.nontrivial = "loop-body>=2" in feats or after or empty
    p, e = K.safe_loads(text)
    if e is not None:
        out.violations.append(Violation(exc_bucket("load", e), "valid loop script refused: %s: %s\n%s" % (type(e).__name__, e, text)))
        return out
    q, e = K.safe_loads(flat_text)
    if e is not None:
        return Outcome(discard="unrolled-load-failed:" + type(e).__name__)
    # The unrolled text writes each loop value as a literal.  A *computed* float value (e.g. sqrt(44.9)**-1.5) is only known
    # to the reference up to rounding, so its literal may differ from the loader's value in the last bit: the exact
    # comparison is made when every loop value is exact (ints, literals); otherwise numbers are compared with the
    # reference error bound below (compare_ref) and only the structure is compared here.
    exact_values = True
    for i, it in enumerate(script.items):
        if isinstance(it, A.For):
            for v in refsem.loop_values(it, envs[i]):
                if isinstance(v, N.V) and v.kind != "int" and v.err != 0:
                    exact_values = False
    if exact_values:
        mm = canon.compare_programs(p, q, what=("ops",))
    else:
        out.classes.append("computed-float-loop-values")
        mm = []
        if [(o["op"], [int(m) for m in o["modes"]], len(o.get("args", [])), list(o.get("kwargs", {}))) for o in p.operations] != \
                [(o["op"], [int(m) for m in o["modes"]], len(o.get("args", [])), list(o.get("kwargs", {}))) for o in q.operations]:
            mm.append(canon.Mismatch("structure", "operation names/modes/argument shapes differ"))
    if p.modes != q.modes:
        mm.append(canon.Mismatch("mode-set", "%r vs %r" % (p.modes, q.modes)))
    if mm:
        out.violations.extend(K.mismatch_violations("loop-vs-unrolled", mm, "%s\nunrolled:\n%s" % (text, flat_text)))
        return out
    try:
        mm = canon.compare_ref(p, ref)
    except IllConditioned:
        mm = []
    for it in script.items:
        if isinstance(it, A.For) and it.var in p.variables:
            mm.append(canon.Mismatch("loop-variable-in-variables", "%r still in variables" % it.var))
    out.violations.extend(K.mismatch_violations("loop-vs-reference", mm, text))
    if not out.violations and len(p.operations) == len(q.operations):
        # the operations of the loop are separate objects like those of the unrolled text: the same in-place edit of every
        # operation (first mode += 1000*(position+1)) leaves the two programs equal
        try:
            for prog in (p, q):
                for i, o in enumerate(prog.operations):
                    if isinstance(o.get("modes"), list) and o["modes"]:
                        o["modes"][0] = int(o["modes"][0]) + 1000 * (i + 1)
            a_ = [[int(m) for m in o["modes"]] for o in p.operations]
            b_ = [[int(m) for m in o["modes"]] for o in q.operations]
        except Exception as e:
            raise HarnessError("C06 edit: %r" % e)
        if a_ != b_:
            out.violations.append(Violation("loop-vs-unrolled|after-the-same-edit-of-every-operation",
                                            "after adding 1000*(k+1) to the first mode of operation k in both programs the modes are %r (loop) "
                                            "vs %r (unrolled): operations produced by the loop share state\n%s" % (a_, b_, text)))
    return out

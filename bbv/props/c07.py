"""C07 -- calling an included program equals inlining it with renamed modes."""
import os
import posixpath
import shutil
import tempfile

from hypothesis import strategies as st

from ..model import ast as A, strategies as S, render, refsem
from ..run import Outcome, Violation, exc_bucket, HarnessError
from .. import canon
from ..valuecmp import IllConditioned
from . import common as K

ID = "C07"
RULE = ("Hypothesis constructs a directory tree of .xbb files: 1..3 subroutines on 1..4 arbitrary mode numbers out of 0..40 "
        "(non-contiguous, written in any order), any statement order, with or without template parameters; optionally a wrapper "
        "that includes and calls subroutines (nesting depth 2..3); a main script with relative ('lib/x.xbb', '../x.xbb'), absolute "
        "and repeated include lines, 1..4 call sites per subroutine (also inside loops, with computed modes and keyword values); the "
        "process working directory is the main file's directory, a sibling, the root or an unrelated directory (sometimes holding a "
        "decoy file under the same relative name); load() gets an absolute path or one relative to that directory. Oracle "
        "(reference inliner): each call is expanded recursively on the model -- modes of the (expanded) subroutine sorted "
        "increasingly and zipped with the call's modes, parameters bound to the call's keyword values -- and the resulting operations "
        "and mode set are compared with blackbird.load(main). Non-trivial = subroutine whose written mode order is not increasing, or "
        ">=2 calls of one subroutine, or nesting depth >=2, or cwd != main directory. Distinct = SHA-1 of all file texts + cwd."
        " Subroutines may contain for loops (loop-invariant statements plus one using the loop variable); a later call"
        " of the same subroutine may pass look-alike keyword values (2 / 2.0); a quarter of the cases writes one"
        " include as \"lnk/../<path>\" through a symbolic link into another directory tree (the operating system's"
        " resolution is the oracle, a decoy file sits where a textual normalisation would look). Directory names may be"
        " '$HOME', '~', '${HOME}', '$PATH', '%TEMP%' (ordinary names to the operating system). Half of the cases load the tree a"
        " first time while one included file is missing, syntactically broken or uses an undefined name, put the file right and"
        " load again: the second load is the one compared (an earlier failed attempt must not matter). The main script may call"
        " programs it knows only through the wrapper's include lines.")
ASSUMPTIONS = ["reference interpreter and inliner (bbv/model/refsem.py)", "files are ASCII (FileStream default)",
               "mismatched calls (arity, keywords) are covered by C11"]
BUDGET = {"quick": (1200, 4), "thorough": (8000, 16)}

_GATES = ["Sgate", "BSgate", "Rgate", "Vac", "Dgate", "MeasureX"]


@st.composite
def subroutine(draw, name, template):
    nm = draw(st.integers(1, 4))
    modes = draw(st.lists(st.integers(0, 40), min_size=nm, max_size=nm, unique=True))
    params = draw(st.lists(st.sampled_from(["a", "b", "phi", "r"]), min_size=1, max_size=2, unique=True)) if template else []
    ctx = S.Ctx(depth=1, params=params)
    items = []
    used_modes = set()
    used_params = set()
    n = draw(st.integers(max(1, nm), nm + 3))
    for i in range(n):
        k = draw(st.integers(1, min(2, nm)))
        ms = draw(st.lists(st.sampled_from(modes), min_size=k, max_size=k, unique=True))
        rest = [m for m in modes if m not in used_modes]
        if rest and n - i <= len(rest):
            ms = [rest[0]] + [m for m in ms if m != rest[0]][:k - 1]
        used_modes |= set(ms)
        pos = []
        kw = []
        for _ in range(draw(st.integers(0, 2))):
            if params and draw(st.booleans()):
                p = draw(st.sampled_from(params))
                used_params.add(p)
                others = [q for q in params if q != p]
                multi = []
                if others:
                    q = others[0]
                    multi = [A.Flat([A.Operand("", A.Num("int", "2")), A.Operand("", A.Param(p)), A.Operand("", A.Param(q))], ["*", "-"]),
                             A.Flat([A.Operand("", A.Param(p)), A.Operand("", A.Param(q)), A.Operand("", A.Num("float", "0.5"))], ["/", "+"])]
                e = draw(st.sampled_from(multi + [
                    S.F1(A.Param(p)), S.F1(A.Param(p), "-"),
                    A.Flat([A.Operand("", A.Num("float", "2.5")), A.Operand("", A.Param(p))], ["*"]),
                    A.Flat([A.Operand("", A.Param(p)), A.Operand("", A.Num("int", "1"))], ["+"])]))
                used_params |= {x.name for x in A.walk_prims(e) if isinstance(x, A.Param)}
                if draw(st.booleans()):
                    pos.append(e)
                else:
                    kw.append(["k%d" % len(kw), e])
            else:
                pos.append(draw(st.one_of(S.num_float().map(S.F1), S.num_int().map(S.F1))))
        args = A.Args(pos, kw, False) if (pos or kw or draw(st.booleans())) else None
        items.append(A.Stmt(draw(st.sampled_from(_GATES)), args, [S.F1(A.Num("int", str(m))) for m in ms], "[", "]"))
    for p in params:
        if p not in used_params:
            items.append(A.Stmt("Rgate", A.Args([S.F1(A.Param(p))], [], False), [S.F1(A.Num("int", str(modes[0])))], "", ""))
    if draw(st.integers(0, 3)) == 0:
        # one or two statements of the subroutine stand in a for loop (they do not mention the loop variable), optionally
        # followed by one that does
        a_ = draw(st.integers(0, len(items) - 1))
        b_ = min(len(items), a_ + draw(st.integers(1, 2)))
        body = list(items[a_:b_])
        if draw(st.booleans()):
            body.append(A.Stmt("Dgate", A.Args([A.Flat([A.Operand("", A.Num("float", "0.5")), A.Operand("", A.Var("i"))], ["*"])], [], False),
                               [S.F1(A.Num("int", str(modes[0])))], "", ""))
        hdr = A.Range("0", str(draw(st.integers(2, 3)))) if draw(st.booleans()) else A.ForList([S.F1(A.Num("int", "3")), S.F1(A.Num("int", "5"))], "[", "]")
        items[a_:b_] = [A.For("int", "i", hdr, body)]
    return A.Script(name, "1.0", None, None, [], items), modes, params


@st.composite
def call_stmt(draw, name, nmodes, params, loopvar=None):
    base = draw(st.lists(st.integers(0, 30), min_size=nmodes, max_size=nmodes, unique=True))
    modes = []
    for i, m in enumerate(base):
        if loopvar and i == 0:
            modes.append(A.Flat([A.Operand("", A.Var(loopvar)), A.Operand("", A.Num("int", str(50 + 0)))], ["+"]))
        else:
            modes.append(S.F1(A.Num("int", str(m))))
    if loopvar:
        # keep modes distinct for every loop value (loop variable + 50 is outside 0..30)
        pass
    args = None
    if params:
        kws = list(params)
        if draw(st.booleans()):
            kws.reverse()
        kw = []
        for p in kws:
            v = draw(st.one_of(S.num_float().map(S.F1), S.num_int().map(S.F1),
                               st.just(A.Flat([A.Operand("", A.Num("float", "0.5")), A.Operand("", A.Num("int", "3"))], ["*"]))))
            if loopvar and draw(st.booleans()):
                v = A.Flat([A.Operand("", A.Var(loopvar)), A.Operand("", A.Num("float", "0.25"))], ["*"])
            kw.append([p, v])
        args = A.Args([], kw, False)
    lbr, rbr = draw(st.sampled_from([("[", "]"), ("(", ")"), ("", "")]))
    return A.Stmt(name, args, modes, lbr, rbr)


@st.composite
def case(draw, tier):
    nsubs = draw(st.integers(1, 3))
    # (directory names that mean something to a shell -- '$HOME', '~' -- are ordinary names to the operating system)
    lib = draw(st.sampled_from(["lib"] * 5 + ["$HOME", "~", "${HOME}", "$PATH", "%TEMP%"]))
    dirs = ["", lib, lib + "/deep", "other"]
    files = {}          # rel path -> {"script": model, "includes": [(kind, target rel)]}
    subs = []
    # scenario: the same *relative include string* ("rot.xbb") denotes different files next to the wrapper and next to main
    same_string = draw(st.integers(0, 5)) == 0
    ss_wdir, ss_mdir = draw(st.sampled_from([("lib", ""), ("lib/deep", "lib"), ("other", "m"), ("", "m")]))
    if same_string:
        nsubs = max(nsubs, 2)
    for i in range(nsubs):
        name = "sub%d" % i
        sc, modes, params = draw(subroutine(name, draw(st.booleans())))
        d = draw(st.sampled_from(dirs))
        rel = posixpath.join(d, draw(st.sampled_from([name + ".xbb", "rot.xbb", "s.xbb"])))
        if same_string and i < 2:
            rel = posixpath.join([ss_wdir, ss_mdir][i], "rot.xbb")
        if rel in files:
            rel = posixpath.join(d, name + ".xbb")
        files[rel] = {"script": sc, "includes": []}
        subs.append({"name": name, "rel": rel, "nmodes": len(modes), "params": params, "modes": modes})
    callables = list(subs)
    depth = 1
    if same_string or draw(st.integers(0, 2)) == 0:
        # wrapper including and calling some subroutines (nesting)
        inner = draw(st.lists(st.sampled_from(subs), min_size=1, max_size=2, unique_by=lambda s: s["name"]))
        wd = draw(st.sampled_from(dirs))
        if same_string:
            inner = [subs[0]]
            wd = ss_wdir
        wrel = posixpath.join(wd, draw(st.sampled_from(["wrap.xbb", "rot.xbb"])))
        if wrel in files:
            wrel = posixpath.join(wd, "wrap.xbb")
        items = [A.Stmt("Vac", None, [S.F1(A.Num("int", str(draw(st.integers(0, 40)))))], "", "")]
        incs = []
        wparams = draw(st.lists(st.sampled_from(["a", "b", "phi", "r"]), min_size=0, max_size=2, unique=True))
        inner_params = sorted({p for s in inner for p in s["params"]})
        if inner_params and draw(st.booleans()):
            wparams = inner_params[:2]            # same names as the subroutine's parameters (bound cross-wise below)
        for s in inner:
            incs.append((draw(st.sampled_from(["rel", "rel", "abs"])) if not same_string else "rel", s["rel"]))
            for _ in range(draw(st.integers(1, 2))):
                cs = draw(call_stmt(s["name"], s["nmodes"], s["params"]))
                if wparams and cs.args is not None:
                    # forward the wrapper's own parameters (possibly cross-named) into the subroutine's parameters
                    forward_all = draw(st.booleans())
                    for kv in cs.args.kwargs:
                        if forward_all or draw(st.booleans()):
                            others = [x for x in wparams if x != kv[0]]
                            w = draw(st.sampled_from(others)) if (others and draw(st.integers(0, 2)) > 0) else draw(st.sampled_from(wparams))
                            kv[1] = draw(st.sampled_from([
                                S.F1(A.Param(w)),
                                A.Flat([A.Operand("", A.Param(w)), A.Operand("", A.Num("int", "1"))], ["+"]),
                                A.Flat([A.Operand("", A.Num("float", "0.5")), A.Operand("", A.Param(w))], ["*"]),
                                A.Flat([A.Operand("", A.Param(w)), A.Operand("", A.Param(wparams[-1]))], ["-"]) if len(wparams) > 1 else S.F1(A.Param(w))]))
                items.insert(draw(st.integers(0, len(items))), cs)
        wsc = A.Script("wrap", "1.0", None, None, [], items)
        files[wrel] = {"script": wsc, "includes": incs}
        wmodes = None   # computed from the reference
        callables.append({"name": "wrap", "rel": wrel, "nmodes": None, "params": [], "modes": None})
        depth = 2
    maindir = draw(st.sampled_from(["", "m", "m/n", lib])) if not same_string else ss_mdir
    mrel = posixpath.join(maindir, "main.xbb")
    items = []
    incs = []
    ncalls = {}
    chosen = draw(st.lists(st.sampled_from(callables), min_size=1, max_size=len(callables), unique_by=lambda s: s["name"]))
    if depth == 2 and not any(s["name"] == "wrap" for s in chosen) and draw(st.integers(0, 3)) > 0:
        chosen.append(callables[-1])
    if same_string:
        chosen = [callables[-1], subs[1]] + [s for s in chosen if s["name"] not in ("wrap", subs[1]["name"], subs[0]["name"])]
    for s in chosen:
        incs.append((draw(st.sampled_from(["rel", "rel", "abs"])) if not same_string else "rel", s["rel"]))
        if draw(st.integers(0, 3)) == 0:
            incs.append((draw(st.sampled_from(["rel", "abs"])), s["rel"]))      # repeated include line
    main_items = [A.ScalarDecl("int", "n", S.F1(A.Num("int", "2"))), A.Stmt("Vac", None, [S.F1(A.Num("int", "0"))], "", "")]
    case_ = {"files": files, "main": mrel, "main_incs": incs, "chosen": [s["name"] for s in chosen], "callables": callables,
             "calls": [], "depth": depth}
    for s in chosen:
        k = draw(st.integers(1, 4))
        for _ in range(k):
            case_["calls"].append({"name": s["name"], "loop": draw(st.integers(0, 4)) == 0, "seed": draw(st.integers(0, 10 ** 6)),
                                   "at": draw(st.integers(0, 10))})
    case_["transitive"] = []
    if depth == 2 and any(s["name"] == "wrap" for s in chosen) and not same_string:
        # programs the main script knows only through the wrapper's own include lines are callable from the main script too
        for s in inner:
            if s["name"] not in case_["chosen"] and draw(st.booleans()):
                case_["transitive"].append(s["name"])
                for _ in range(draw(st.integers(1, 2))):
                    case_["calls"].append({"name": s["name"], "loop": False, "seed": 0, "at": draw(st.integers(0, 10))})
    case_["cwd"] = draw(st.sampled_from(["main", "main", "sibling", "root", "unrelated"]))
    case_["how"] = draw(st.sampled_from(["abs", "rel"]))
    case_["decoy"] = draw(st.booleans())
    case_["symlink"] = draw(st.integers(0, 3)) == 0
    case_["main_items"] = main_items
    # an earlier load of the same tree that fails inside an included file (file missing / broken), after which the file is put right
    case_["prime"] = draw(st.sampled_from([None, None, None, "missing", "syntax", "undefined-name"]))
    case_["prime_idx"] = draw(st.integers(0, 7))
    # draw the call statements now (arity of the wrapper is known only after the reference run: use placeholders)
    case_["call_draws"] = [[draw(st.integers(0, 30)) for _ in range(8)] + [draw(st.integers(0, 3))] for _ in case_["calls"]]
    case_["kw_draws"] = [[draw(st.sampled_from(["0.5", "1.25", "2", "3.0", "0.125", "1", "2.0"])) for _ in range(3)] for _ in case_["calls"]]
    # a later call of the same subroutine with look-alike keyword values: equal numbers of the other type (2 / 2.0)
    twin = {"2": "2.0", "2.0": "2", "3.0": "3", "1": "1.0", "0.5": "0.50", "1.25": "1.25", "0.125": "0.1250", "0.50": "0.5", "0.1250": "0.125"}
    for j, cj in enumerate(case_["calls"]):
        earlier = [i for i in range(j) if case_["calls"][i]["name"] == cj["name"]]
        if earlier and draw(st.integers(0, 2)) == 0:
            case_["kw_draws"][j] = [twin[x] for x in case_["kw_draws"][earlier[0]]]
            cj["loop"] = case_["calls"][earlier[0]]["loop"] = False
    return case_


def strategy(tier):
    return case(tier)


dump_case, load_case = K.dump_case, K.load_case


def _relpath(frm_dir, to_rel):
    return posixpath.relpath(to_rel, frm_dir or ".")


def build(c, root):
    """Returns (texts: rel -> text, reference RefProgram of main, stats)."""
    files = c["files"]
    refs = {}
    texts = {}

    def inc_string(kind, from_rel, to_rel):
        if kind == "abs":
            return posixpath.join(root, to_rel)
        return _relpath(posixpath.dirname(from_rel), to_rel)

    def ref_of(rel, stack=()):
        if rel in refs:
            return refs[rel]
        f = files[rel]
        incs = {}
        for kind, target in f["includes"]:
            r = ref_of(target, stack + (rel,))
            incs[r.name] = r
        sc = f["script"]
        sc = A.Script(sc.name, sc.version, sc.target, sc.ptype, [inc_string(k, rel, t) for k, t in f["includes"]], sc.items)
        refs[rel] = refsem.run(sc, incs)
        texts[rel] = render.render(sc)
        return refs[rel]

    for rel in files:
        ref_of(rel)
    by_name = {cc["name"]: cc for cc in c["callables"]}
    items = list(c["main_items"])
    multi = {}
    for call, dr, kd in zip(c["calls"], c["call_draws"], c["kw_draws"]):
        cc = by_name[call["name"]]
        r = refs[cc["rel"]]
        nm = len(r.modes)
        base = []
        for x in dr[:8]:
            if x not in base:
                base.append(x)
        x = 31
        while len(base) < nm:
            base.append(x)
            x += 1
        base = base[:nm]
        params = sorted(r.params)
        kw = None
        if params:
            kw = A.Args([], [[p, S.F1(A.Num("float" if "." in kd[i % 3] else "int", kd[i % 3]))] for i, p in enumerate(params)], False)
            if dr[8] % 2:
                kw.kwargs.reverse()
        lbr, rbr = [("[", "]"), ("(", ")"), ("", ""), ("[", "]")][dr[8]]
        multi[call["name"]] = multi.get(call["name"], 0) + 1
        if call["loop"]:
            modes = [A.Flat([A.Operand("", A.Var("i")), A.Operand("", A.Num("int", str(60 + 3 * j)))], ["+"]) for j in range(nm)]
            if kw is not None and kw.kwargs:
                kw.kwargs[0][1] = A.Flat([A.Operand("", A.Var("i")), A.Operand("", A.Num("float", "0.25"))], ["*"])
            st_ = A.For("int", "i", A.Range("0", "2"), [A.Stmt(call["name"], kw, modes, lbr, rbr)])
            multi[call["name"]] += 1
        else:
            st_ = A.Stmt(call["name"], kw, [S.F1(A.Num("int", str(m))) for m in base], lbr, rbr)
        items.insert(min(call["at"], len(items)), st_)
    main = A.Script("main", "1.0", None, None, [inc_string(k, c["main"], t) for k, t in
                                                [(k, by_name[n]["rel"]) for (k, _), n in zip(_inc_pairs(c), _inc_names(c))]], items)
    incs = {refs[by_name[n]["rel"]].name: refs[by_name[n]["rel"]] for n in list(c["chosen"]) + list(c.get("transitive", []))}
    main_ref = refsem.run(main, incs)
    texts[c["main"]] = render.render(main)
    return texts, main_ref, multi


def _inc_pairs(c):
    return c["main_incs"]


def _inc_names(c):
    by_rel = {cc["rel"]: cc["name"] for cc in c["callables"]}
    return [by_rel[t] for _, t in c["main_incs"]]


def check(c):
    root = tempfile.mkdtemp(prefix="bbv-c07-")
    old = os.getcwd()
    try:
        try:
            texts, ref, multi = build(c, root)
        except refsem.OutOfDomain as e:
            return Outcome(discard="domain:" + e.reason)
        except refsem.RefModelError as e:
            return Outcome(discard="generator-invalid-model")
        except render.RenderError as e:
            raise HarnessError(str(e))
        for rel, text in texts.items():
            path = os.path.join(root, rel)
            os.makedirs(os.path.dirname(path), exist_ok=True)
            with open(path, "w", encoding="ascii", newline="") as f:
                f.write(text)
        maindir = posixpath.dirname(c["main"])
        cwd_rel = {"main": maindir, "sibling": "sib", "root": "", "unrelated": None}[c["cwd"]]
        if cwd_rel is None:
            cwd = tempfile.mkdtemp(prefix="bbv-c07-cwd-")
        else:
            cwd = os.path.join(root, cwd_rel)
            os.makedirs(cwd, exist_ok=True)
        decoys = 0
        if c["decoy"] and os.path.realpath(cwd) != os.path.realpath(os.path.join(root, maindir)):
            # files with the same *relative* include names, as seen from the working directory, but other content
            for line in texts[c["main"]].splitlines():
                if line.startswith("include ") and not line.split('"')[1].startswith("/"):
                    target = os.path.normpath(os.path.join(cwd, line.split('"')[1]))
                    if not os.path.exists(target) and target.startswith((root, cwd)):
                        os.makedirs(os.path.dirname(target), exist_ok=True)
                        nm = os.path.splitext(os.path.basename(target))[0]
                        with open(target, "w", encoding="ascii") as f:
                            f.write("name %s\nversion 1.0\nDecoy | 0\n" % nm)
                        decoys += 1
        symlinked = 0
        if c.get("symlink"):
            # an include written through a symbolic link and "..":  include "lnk/../<path>" where lnk points into another
            # directory tree, so that the operating system resolves it to <root>/zz9/<path> (the file is moved there and a
            # decoy of the same name is left where a purely textual lnk/.. -> . would look)
            referenced_elsewhere = {t for rel_, f_ in c["files"].items() for _, t in f_["includes"]}
            for (kind, target), _nm in zip(_inc_pairs(c), _inc_names(c)):
                sline = _relpath(maindir, target)
                if kind != "rel" or target in referenced_elsewhere or c["files"][target]["includes"] or sline.startswith("..") \
                        or [t for _, t in _inc_pairs(c)].count(target) != 1 \
                        or ('"%s"' % sline) not in texts[c["main"]]:
                    continue
                os.makedirs(os.path.join(root, "zz9", "inner"), exist_ok=True)
                lnk = os.path.join(root, maindir, "lnk")
                if not os.path.islink(lnk):
                    os.symlink(os.path.join(root, "zz9", "inner"), lnk)
                moved = os.path.join(root, "zz9", sline)
                os.makedirs(os.path.dirname(moved), exist_ok=True)
                orig = os.path.join(root, target)
                shutil.move(orig, moved)
                with open(orig, "w", encoding="ascii") as f:
                    f.write("name %s\nversion 1.0\nDecoy | 0\n" % c["files"][target]["script"].name)
                texts[c["main"]] = texts[c["main"]].replace('"%s"' % sline, '"lnk/../%s"' % sline)
                with open(os.path.join(root, c["main"]), "w", encoding="ascii", newline="") as f:
                    f.write(texts[c["main"]])
                symlinked += 1
                break
        os.chdir(cwd)
        main_abs = os.path.join(root, c["main"])
        arg = main_abs if c["how"] == "abs" or cwd_rel is None else os.path.relpath(main_abs, cwd)
        primed = None
        if c.get("prime") and not symlinked:
            # the edit/retry cycle: one file of the tree is missing or broken at the first attempt (whatever that attempt does
            # is not asserted here), is put right, and the tree is loaded again -- that load is the one compared
            victims = sorted(c["files"])
            vpath = os.path.join(root, victims[c["prime_idx"] % len(victims)])
            with open(vpath, encoding="ascii", newline="") as f:
                good = f.read()
            if c["prime"] == "missing":
                os.rename(vpath, vpath + ".away")
            else:
                with open(vpath, "w", encoding="ascii", newline="") as f:
                    f.write(good.rstrip("\r\n") + ("\nSgate(1 | 0\n" if c["prime"] == "syntax" else "\nSgate(undefined_zz9) | 0\n"))
            _, e0 = K.safe_load_file(arg)
            if c["prime"] == "missing":
                os.rename(vpath + ".away", vpath)
            else:
                with open(vpath, "w", encoding="ascii", newline="") as f:
                    f.write(good)
            primed = "after-failed-attempt" if e0 is not None else "after-unaffected-attempt"
        p, e = K.safe_load_file(arg)
        os.chdir(old)
        allt = "\n".join("### %s\n%s" % (k, v.replace(root, "<ROOT>")) for k, v in sorted(texts.items()))
        key = allt + "|cwd=%s|how=%s|decoys=%d|symlink=%d|prime=%s" % (c["cwd"], c["how"], decoys, symlinked, primed)
        out = Outcome(key=key, sample={"files": {k: v.replace(root, "<ROOT>") for k, v in texts.items()}, "cwd": c["cwd"], "load_path": c["how"]})
        unsorted_sub = any(cc["modes"] is not None and cc["modes"] != sorted(cc["modes"]) and len(cc["modes"]) > 1 and cc["name"] in c["chosen"]
                           for cc in c["callables"])
        out.classes = ["cwd:" + c["cwd"], "path:" + c["how"], "depth:%d" % c["depth"]]
        if unsorted_sub:
            out.classes.append("subroutine-modes-not-increasing")
        if any(v >= 2 for v in multi.values()):
            out.classes.append("repeated-call")
        if decoys:
            out.classes.append("decoy-in-cwd")
        if symlinked:
            out.classes.append("include-through-symlink-and-dotdot")
        if any(k == "abs" for k, _ in c["main_incs"]):
            out.classes.append("absolute-include")
        if any(cl["loop"] for cl in c["calls"]):
            out.classes.append("call-in-loop")
        if primed:
            out.classes.append(primed)
        if c.get("transitive"):
            out.classes.append("call-of-transitively-included-program")
        if any(ch in allt for ch in ("$", "~", "%TEMP%")):
            out.classes.append("shell-like-directory-name")
        out.nontrivial = unsorted_sub or any(v >= 2 for v in multi.values()) or c["depth"] >= 2 or c["cwd"] != "main"
        if e is not None:
            out.violations.append(Violation(exc_bucket("load", e), "valid include tree refused: %s: %s\ncwd=%s load(%r)\n%s" % (
                type(e).__name__, str(e).replace(root, "<ROOT>"), c["cwd"], arg.replace(root, "<ROOT>"), allt)))
            return out
        try:
            mm = canon.compare_ref(p, ref)
        except IllConditioned:
            return Outcome(discard="ill-conditioned")
        out.violations.extend(K.mismatch_violations("inline", mm, "cwd=%s load(%r)\n%s" % (c["cwd"], arg.replace(root, "<ROOT>"), allt)))
        return out
    finally:
        os.chdir(old)
        shutil.rmtree(root, ignore_errors=True)
        if "cwd" in locals() and cwd_rel is None:
            shutil.rmtree(cwd, ignore_errors=True)

"""C08 -- measured-register arguments become transforms computing the written formula."""
from hypothesis import strategies as st

from ..model import ast as A, strategies as S, refsem
from ..run import Outcome, Violation, exc_bucket
from .. import canon
from ..valuecmp import IllConditioned
from . import common as K

ID = "C08"
SHARD_HASHSEEDS = True     # every shard is a fresh interpreter with PYTHONHASHSEED = shard index
RULE = ("Hypothesis constructs scripts whose statements take polynomial/rational expressions over 1..4 distinct registers qN "
        "(N up to 3 digits, leading zeros) with int/float coefficients and declared variables, in positional and keyword position, "
        "mixed with register-free arguments, also in loop bodies. Oracle (reference model): the delivered object is a "
        "RegRefTransform; sorted(regrefs) equals the registers of the written expression, each once; func applied to measurement "
        "values in the listed order equals the reference value (relative 1e-12) at 3 generic points, one point with all registers "
        "close to each other and points next to the literals written in the expression; register-free arguments are "
        "plain values. Expressions in which a register cancels identically (value does not depend on it at 50 digits) are "
        "discarded and counted. Each shard runs in its own interpreter with a different PYTHONHASHSEED because the order of the "
        "listed registers is hash dependent. Non-trivial = an argument with >=2 distinct registers, or a register expression in "
        "keyword position. Distinct = SHA-1 of script text.")
RULE += (" Sample points include integer photon numbers (small, large and close together, squares beyond 53 bits), passed as "
         "Python ints; a quarter of the scripts carries an integer formula whose terms nearly cancel there (q0**3 - q12**3). A third of "
         "the float variables of a script hold register expressions themselves (float fb = 0.5*q0 - q12/4).")
ASSUMPTIONS = ["reference interpreter", "measurement values are generic reals away from poles"]
BUDGET = {"quick": (1600, 4), "thorough": (32000, 16)}


def _cfg(tier, params=False):
    return S.Cfg(max_items=10 if tier != "quick" else 6, depth=2, regs=True, params=params, options=False, ascii_only=False)


@st.composite
def case(draw, tier):
    with_params = draw(st.integers(0, 3)) == 0
    sc = draw(S.script(_cfg(tier, with_params)))
    if with_params:
        # a register argument next to a template-parameter argument, in both orders and as keyword ("arguments without
        # registers stay plain values" -- a parameter is not a measured register)
        reg = A.Flat([A.Operand("", A.Num("float", "0.5")), A.Operand("", A.Reg("q%d" % draw(st.integers(0, 12))))], ["*"])
        par = draw(st.sampled_from([S.F1(A.Param("r1")), A.Flat([A.Operand("", A.Param("phi")), A.Operand("", A.Num("int", "2"))], ["*"])]))
        order = draw(st.integers(0, 2))
        args = A.Args([reg, par], [], False) if order == 0 else A.Args([par, reg], [], False) if order == 1 else A.Args([reg], [["k", par]], False)
        sc.items.append(A.Stmt("Mixed", args, [S.F1(A.Num("int", "0"))], "", ""))
    if draw(st.integers(0, 2)) == 0:
        # three or four distinct registers in one nested argument (positional and keyword)
        nums = draw(st.lists(st.one_of(st.integers(0, 12), st.integers(0, 300)), min_size=3, max_size=4, unique=True))
        sy = [A.Operand("", A.Reg("q%d" % n)) for n in nums]
        last = sy[3] if len(sy) > 3 else sy[0]
        nested = draw(st.sampled_from([
            A.Flat([A.Operand("", A.Paren(A.Flat([sy[0], sy[1]], ["+"]))), sy[2], last], ["*", "-"]),
            A.Flat([sy[0], sy[1], sy[2], last], ["*", "+", "*"]),
            A.Flat([last, A.Operand("", A.Paren(A.Flat([sy[2], sy[0]], ["-"]))), sy[1], A.Operand("", A.Num("float", "0.5"))], ["*", "+", "*"])]))
        kw = [["phi", A.Flat([sy[2], A.Operand("", A.Paren(A.Flat([sy[1], sy[0]], ["-"]))), last], ["*", "+"])]] if draw(st.booleans()) else []
        sc.items.append(A.Stmt("Nested", A.Args([nested], kw, False), [S.F1(A.Num("int", "0"))], "", ""))
    if draw(st.integers(0, 3)) == 0:
        # twin expressions that differ only by -1 vs -2 (CPython: hash(-1) == hash(-2))
        r1, r2 = draw(st.integers(0, 9)), draw(st.integers(10, 19))
        a, b = A.Operand("", A.Reg("q%d" % r1)), A.Operand("", A.Reg("q%d" % r2))
        form = draw(st.integers(0, 2))
        pair = []
        for c_ in ("1", "2"):
            k = A.Operand("", A.Num("int", c_))
            if form == 0:
                e = A.Flat([A.Operand("-", A.Num("int", c_)), a], ["*"])                      # -1*q / -2*q
            elif form == 1:
                e = A.Flat([a, k, b], ["-", "*"])                                             # q - 1*r / q - 2*r
            else:
                e = A.Flat([A.Operand("", A.Num("int", "1")), b, k], ["/", "**"])             # 1/r**1 / 1/r**2
            pair.append(A.Stmt("Twin", A.Args([e], [], False), [S.F1(A.Num("int", "0"))], "", ""))
        sc.items.extend(pair)
    if draw(st.integers(0, 3)) == 0:
        # integer formulas whose terms nearly cancel at large, close photon numbers (exact in integer arithmetic)
        r1 = draw(st.integers(0, 9)); r2 = draw(st.integers(10, 300))
        a, b = A.Operand("", A.Reg("q%d" % r1)), A.Operand("", A.Reg("q%d" % r2))
        n = lambda t: A.Operand("", A.Num("int", t))
        K_ = n(draw(st.sampled_from(["9007199254740993", "4503599627370497", "3"])))
        e = draw(st.sampled_from([
            A.Flat([a, n("3"), b, n("3")], ["**", "-", "**"]),
            A.Flat([a, n("2"), b, n("2")], ["**", "-", "**"]),
            A.Flat([a, a, b, b], ["*", "-", "*"]),
            A.Flat([a, n("3"), a, b, b], ["**", "-", "*", "*"]),
            A.Flat([K_, a, K_, b], ["*", "-", "*"]),
            A.Flat([b, b, b, a, a, a, n("1")], ["*", "*", "-", "*", "*", "+"])]))
        args = A.Args([e], [], False) if draw(st.booleans()) else A.Args([], [["n", e]], False)
        sc.items.append(A.Stmt("Counts", args, [S.F1(A.Num("int", "0"))], "", ""))
    return {"script": sc, "layout": draw(K.layout_light())}


def strategy(tier):
    return case(tier)


dump_case, load_case = K.dump_case, K.load_case


def _reg_stats(script):
    multi = kw = False
    for st_ in A.statements(script):
        if st_.args is None:
            continue
        for is_kw, v in [(False, x) for x in st_.args.pos] + [(True, x) for _, x in st_.args.kwargs]:
            if isinstance(v, A.Flat):
                regs = {int(p.text[1:]) for p in A.walk_prims(v) if isinstance(p, A.Reg)}
                if len(regs) >= 2:
                    multi = True
                if regs and is_kw:
                    kw = True
    return multi, kw


def check(c):
    script = c["script"]
    try:
        ref = K.reference(script)
    except K.Discard as d:
        return Outcome(discard=d.reason)
    text = K.render_case(c)
    feats, nstmt = K.features(script)
    multi, kw = _reg_stats(script)
    out = Outcome(key=text, classes=sorted(feats | ({"multi-register-argument"} if multi else set()) | ({"register-keyword"} if kw else set())),
                  sample={"script": text})
    out.nontrivial = multi or kw
    p, e = K.safe_loads(text)
    if e is not None:
        out.violations.append(Violation(exc_bucket("load", e), "valid script refused: %s: %s\n%s" % (type(e).__name__, e, text)))
        return out
    try:
        canon.SYM_RTOL[0] = 1e-12     # the transform's function computes the written formula (no printing in between)
        mm = canon.compare_ref(p, ref)
    except IllConditioned:
        return Outcome(discard="ill-conditioned")
    finally:
        canon.SYM_RTOL[0] = 1e-9
    out.violations.extend(K.mismatch_violations("transform", mm, text))
    return out

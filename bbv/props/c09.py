"""C09 -- programs assembled through the API serialise to valid, equivalent scripts."""
import numpy as np
import sympy as sym
from hypothesis import strategies as st

from ..model import strategies as S
from ..run import Outcome, Violation, exc_bucket
from .. import canon, ref
from . import common as K

ID = "C09"
RULE = ("Hypothesis assembles BlackbirdProgram objects the way the repository's tests do (constructor + operation dictionaries, target "
        "and type dictionaries): Python and 64-bit NumPy ints/floats/complex numbers, bools (Python and NumPy), quote-free strings (any "
        "characters except the double quote, CR, LF), lists of these, 2-D int/float/complex arrays r x c >= 1x1 with extreme finite "
        "elements (-0.0, subnormals, 1e+-300, negative real/imaginary parts, int64 extremes), twins with the same elements in another "
        "shape, real polynomial/rational SymPy expressions in named parameters (overlapping names); positional and keyword position; "
        "single and multiple modes (Python and NumPy ints); target/type options of scalar/str/bool/list kinds; names drawn as valid "
        "NAME/MEASURE/DEVICE lexemes, FLOAT-shaped versions. Oracle (round trip against the constructed object): loads(dumps(P)) "
        "succeeds and equals P in name, version, target, type, options, parameters-free content and operations; arrays come back with "
        "the same shape, dtype kind and exactly equal elements. Non-trivial = >=2 operations and >=2 distinct value kinds, or an array "
        "with an extreme element, or options present. Distinct = SHA-1 of the serialised text.")
ASSUMPTIONS = ["positional lists have no Blackbird syntax and are not generated (DESIGN.md 3.3)", "arrays are 2-D as the property says"]
BUDGET = {"quick": (2000, 4), "thorough": (64000, 16)}

_EXT_F = [3.1416, 1.5708, 3.14159265, 0.785398, 1.0471975512, 3.1415927410125732, -1.5707963, 0.5235988, 0.3926991, 6.2831853,
          -0.0, 0.0, 5e-324, -5e-324, 2.2250738585072014e-308, 1e300, -1e300, 1e-300, 1.7976931348623157e308, 0.1, -1.5, 1e22, 1e16, 123456789.123456789]
_EXT_I = [0, 1, -1, 2 ** 63 - 1, -2 ** 63, 2 ** 53 + 1, -7, 10 ** 18]


def _finite_float():
    return st.one_of(st.floats(allow_nan=False, allow_infinity=False), st.sampled_from(_EXT_F), st.floats(min_value=-10, max_value=10, allow_nan=False))


def _int64():
    return st.one_of(st.integers(-20, 20), st.sampled_from(_EXT_I), st.integers(-2 ** 63, 2 ** 63 - 1))


@st.composite
def scalar(draw):
    k = draw(st.sampled_from(["int", "int", "float", "float", "complex", "bool", "str"]))
    np_ = draw(st.booleans())
    if k == "int":
        return {"t": "int", "v": draw(_int64()), "np": np_}
    if k == "float":
        return {"t": "float", "v": draw(_finite_float()), "np": np_}
    if k == "complex":
        return {"t": "complex", "re": draw(_finite_float()), "im": draw(_finite_float()), "np": np_}
    if k == "bool":
        return {"t": "bool", "v": draw(st.booleans()), "np": np_}
    if draw(st.integers(0, 7)) == 0:
        # strings whose content reads like another kind of literal, a comment, a keyword or a p-array name
        return {"t": "str", "v": draw(st.sampled_from(["True", "False", "1", "1.5", "2j", "1e3", "pi", "None", "q0", "[1, 2]", "-1", "nan", "inf",
                                                        "#", "x # y", "{p}", "for", "p0", "    ", "="]))}
    return {"t": "str", "v": draw(st.text(alphabet=st.characters(blacklist_characters='"\r\n', blacklist_categories=("Cs",)), max_size=8))}


@st.composite
def array(draw, pool):
    if pool and draw(st.integers(0, 3)) == 0:
        src = draw(st.sampled_from(pool))
        n = len(src["flat"])
        shapes = [(a, n // a) for a in range(1, n + 1) if n % a == 0]
        r, c = draw(st.sampled_from(shapes))
        a = {"t": "array", "dtype": src["dtype"], "shape": [r, c], "flat": list(src["flat"]),
             "memory": draw(st.sampled_from(["C", "F", "transposed-view"]))}
        return a
    dt = draw(st.sampled_from(["int", "float", "complex"]))
    r, c = draw(st.integers(1, 3)), draw(st.integers(1, 4))
    if dt == "int":
        flat = [draw(_int64()) for _ in range(r * c)]
    elif dt == "float":
        flat = [draw(_finite_float()) for _ in range(r * c)]
    else:
        flat = [[draw(_finite_float()), draw(_finite_float())] for _ in range(r * c)]
    a = {"t": "array", "dtype": dt, "shape": [r, c], "flat": flat,
         "memory": draw(st.sampled_from(["C", "C", "F", "transposed-view", "reversed-view"])),
         "int_dtype": draw(st.sampled_from(["int64", "int64", "uint64", "int32", "uint8"]))}
    pool.append(a)
    return a


@st.composite
def symbolic(draw, params):
    """A real polynomial/rational expression description in the named parameters."""
    n = draw(st.integers(1, 3))
    terms = []
    for _ in range(n):
        terms.append({"coef": draw(st.sampled_from([1, -1, 2, 0.5, -1.5, 3, 1e-5, 0.54, 7])), "p": draw(st.sampled_from(params)),
                      "pow": draw(st.sampled_from([1, 1, 2, 3, -1, -2, 0.5])), "p2": draw(st.one_of(st.none(), st.sampled_from(params)))})
    return {"t": "sym", "terms": terms, "const": draw(st.sampled_from([0, 1, -2.5, 0.25])),
            "nested": draw(st.sampled_from([0, 0, 0, 1, 2, 3, 4, 5, 6]))}


@st.composite
def value(draw, params, pool, allow_list):
    k = draw(st.sampled_from(["scalar"] * 5 + ["array", "sym", "list", "list"]))
    if k == "array":
        return draw(array(pool))
    if k == "sym" and params:
        return draw(symbolic(params))
    if k == "list" and allow_list:
        return {"t": "list", "items": draw(st.lists(scalar(), min_size=1, max_size=4))}
    return draw(scalar())


@st.composite
def case(draw, tier):
    params = draw(st.lists(S.ident(for_param=True), min_size=0, max_size=3, unique=True))
    pool = []
    nops = draw(st.integers(1, 8 if tier != "quick" else 5))
    ops = []
    for _ in range(nops):
        name = draw(st.one_of(S.op_name(), S.measure_name()))
        nm = draw(st.sampled_from([1, 1, 2, 3]))
        modes = [{"v": draw(st.integers(0, 50)), "np": draw(st.booleans())} for _ in range(nm)]
        if draw(st.integers(0, 4)) == 0:
            ops.append({"op": name, "modes": modes, "args": None})
            continue
        pos = [draw(value(params, pool, False)) for _ in range(draw(st.integers(0, 3)))]
        keys = draw(st.lists(S.ident(), max_size=3, unique=True))
        kw = [[k, draw(value(params, pool, True))] for k in keys]
        ops.append({"op": name, "modes": modes, "args": pos, "kwargs": kw})

    def opts():
        keys = draw(st.lists(S.ident(), max_size=3, unique=True))
        out = []
        for k in keys:
            if draw(st.integers(0, 4)) == 0:
                out.append([k, {"t": "list", "items": draw(st.lists(scalar(), min_size=1, max_size=3))}])
            else:
                out.append([k, draw(scalar())])
        return out
    target = None
    if draw(st.booleans()):
        target = {"name": draw(S.device_name()), "options": opts()}
    ptype = None
    if draw(st.integers(0, 2)) == 0:
        ptype = {"name": draw(S.ident().filter(lambda n: n != "tdm")), "options": opts()}
    version = draw(st.one_of(st.sampled_from(["1.0", "0.0", "1.10", "2e3"]), S.real_lexeme()))
    return {"name": draw(S.ident()), "version": version, "target": target, "type": ptype, "ops": ops, "params": params}


def strategy(tier):
    return case(tier)


def dump_case(c):
    from ..model import ast as A
    return A.dump(c)


def load_case(j):
    from ..model import ast as A
    return A.load(j)


def realise(d):
    t = d["t"]
    if t == "int":
        return np.int64(d["v"]) if d["np"] else int(d["v"])
    if t == "float":
        return np.float64(d["v"]) if d["np"] else float(d["v"])
    if t == "complex":
        z = complex(d["re"], d["im"])
        return np.complex128(z) if d["np"] else z
    if t == "bool":
        return np.bool_(d["v"]) if d["np"] else bool(d["v"])
    if t == "str":
        return d["v"]
    if t == "list":
        return [realise(x) for x in d["items"]]
    if t == "array":
        if d["dtype"] == "complex":
            a = np.array([complex(x[0], x[1]) for x in d["flat"]], dtype=np.complex128)
        elif d["dtype"] == "int":
            a = np.array(d["flat"], dtype=np.int64)
            # other integer dtypes holding the same values (the declaration must reproduce every element exactly)
            it = d.get("int_dtype", "int64")
            if it == "uint64" and a.min() >= 0:
                a = a.astype(np.uint64)
            elif it == "int32" and np.abs(a).max() < 2 ** 31:
                a = a.astype(np.int32)
            elif it == "uint8" and a.min() >= 0 and a.max() < 256:
                a = a.astype(np.uint8)
        else:
            a = np.array(d["flat"], dtype=np.float64)
        a = a.reshape(d["shape"])
        mem = d.get("memory", "C")
        if mem == "F":
            a = np.asfortranarray(a)                       # same values, column-major memory
        elif mem == "transposed-view":
            a = np.ascontiguousarray(a.T).T                # a view whose memory order is not the logical order
        elif mem == "reversed-view":
            a = a[::-1, ::-1][::-1, ::-1] if False else np.ascontiguousarray(a[::-1])[::-1]   # negative strides
        return a
    if t == "sym" and d.get("nested"):
        # forms with nested brackets around powers and leading minus signs
        x, y = sym.Symbol(d["terms"][0]["p"]), sym.Symbol(d["terms"][-1]["p2"] or d["terms"][-1]["p"])
        z = sym.Symbol(d["terms"][0]["p2"] or d["terms"][0]["p"])
        k = d["nested"]
        forms = [-(y ** (z * (x + 1))), -((x + (z + 1) / y) ** 2), -((x + 1) ** 2) / (y + 2) + z, (-(x * (y + 1))) ** 3 - z,
                 2 ** (-(x + 1) / (y + 3)), -(((x + 1) * (z + 2)) ** 2) * y]
        return forms[k % len(forms)]
    if t == "sym":
        e = sym.Float(d["const"]) if isinstance(d["const"], float) else sym.Integer(d["const"])
        for tm in d["terms"]:
            s = sym.Symbol(tm["p"])
            term = s ** (sym.Float(tm["pow"]) if isinstance(tm["pow"], float) else tm["pow"])
            if tm["p2"]:
                term = term * sym.Symbol(tm["p2"])
            e = e + (sym.Float(tm["coef"]) if isinstance(tm["coef"], float) else tm["coef"]) * term
        return e
    raise ValueError(t)


def _kinds(v, out, extreme):
    if isinstance(v, dict):
        t = v["t"]
        out.add(t + ("-np" if v.get("np") else ""))
        if t == "list":
            for x in v["items"]:
                _kinds(x, out, extreme)
        if t == "array":
            flat = v["flat"]
            for x in flat:
                xs = x if isinstance(x, list) else [x]
                for y in xs:
                    if isinstance(y, float) and (y == 0 and str(y).startswith("-") or (y != 0 and (abs(y) < 1e-290 or abs(y) >= 1e290))):
                        extreme.append(y)
                    if isinstance(y, int) and abs(y) >= 2 ** 62:
                        extreme.append(y)


def check(c):
    from blackbird.program import BlackbirdProgram
    bb = BlackbirdProgram(name=c["name"], version=c["version"])
    kinds, extreme = set(), []
    for o in c["ops"]:
        d = {"op": o["op"], "modes": [np.int64(m["v"]) if m["np"] else int(m["v"]) for m in o["modes"]]}
        if o["args"] is not None:
            d["args"] = [realise(v) for v in o["args"]]
            d["kwargs"] = {k: realise(v) for k, v in o["kwargs"]}
            for v in o["args"] + [v for _, v in o["kwargs"]]:
                _kinds(v, kinds, extreme)
        bb._operations.append(d)
        bb._modes |= set(int(m) for m in d["modes"])
    opts_present = False
    for key, attr in (("target", "_target"), ("type", "_type")):
        if c[key] is not None:
            getattr(bb, attr)["name"] = c[key]["name"]
            getattr(bb, attr)["options"] = {k: realise(v) for k, v in c[key]["options"]}
            opts_present = opts_present or bool(c[key]["options"])
    used = set()
    for o in bb._operations:
        for v in list(o.get("args", [])) + list((o.get("kwargs") or {}).values()):
            if isinstance(v, sym.Expr):
                if not v.free_symbols:
                    return Outcome(discard="symbolic-expression-without-symbols")
                used |= {str(s) for s in v.free_symbols}
    bb._parameters = [sym.Symbol(n) for n in sorted(used)]
    text, e = K.safe_dumps(bb)
    out = Outcome(key=text or repr(c), classes=sorted("kind:" + k for k in kinds))
    out.nontrivial = (len(c["ops"]) >= 2 and len(kinds) >= 2) or bool(extreme) or opts_present
    if extreme:
        out.classes.append("array-with-extreme-element")
    if opts_present:
        out.classes.append("options")
    if e is not None:
        out.violations.append(Violation(exc_bucket("dumps", e), "dumps raised %s: %s for the program %r" % (type(e).__name__, e, bb.operations)))
        return out
    out.sample = {"serialised": text}
    ok, k, toks = ref.ref_verdict(text)
    p, e = K.safe_loads(text)
    if e is not None:
        where = "" if ok else " (the text is not a sentence of the grammar: first bad token %r at line %d)" % (toks[k].text, toks[k].line)
        out.violations.append(Violation(exc_bucket("reload", e) + ("|ungrammatical" if not ok else "|semantic"),
                                        "serialised text does not load: %s: %s%s\n%s\nprogram: %r" % (type(e).__name__, e, where, text, bb.operations)))
        return out
    with canon.strict_zero_sign():
        mm = canon.compare_programs(bb, p)
    out.violations.extend(K.mismatch_violations("roundtrip", mm, "%s\nprogram: %r %r %r" % (text, bb.operations, bb.target, bb.programtype)))
    if out.violations:
        return out
    # the docs promise that a *modified* program can be serialised again: edit values in place, serialise and re-load
    edited = []
    for o in bb._operations:
        for a in list(o.get("args", [])) + list((o.get("kwargs") or {}).values()):
            if isinstance(a, np.ndarray) and a.size and not edited:
                a.flat[0] = a.flat[0] + 1 if a.dtype.kind in "iu" and abs(int(a.flat[0])) < 2 ** 62 else (a.flat[-1] if a.dtype.kind in "iu" else a.flat[0] * 0.5 + 1.25)
                edited.append("array element")
        if "args" in o and o["args"] and isinstance(o["args"][0], (int, float)) and not isinstance(o["args"][0], bool) and len(edited) < 2:
            o["args"][0] = 7.5
            edited.append("positional value")
    if edited:
        out.classes.append("modified-and-serialised-again")
        text2, e = K.safe_dumps(bb)
        if e is not None:
            out.violations.append(Violation(exc_bucket("dumps-after-edit", e), "dumps raised %s: %s after editing %s in place\n%s" % (type(e).__name__, e, edited, text)))
            return out
        p2, e = K.safe_loads(text2)
        if e is not None:
            out.violations.append(Violation(exc_bucket("reload-after-edit", e), "text serialised after editing %s does not load: %s\n%s" % (edited, e, text2)))
            return out
        with canon.strict_zero_sign():
            mm = canon.compare_programs(bb, p2)
        out.violations.extend(K.mismatch_violations("roundtrip-after-edit", mm, "edited %s in place after a first dumps\nfirst text:\n%s\nsecond text:\n%s" % (
            edited, text, text2)))
    return out

"""C10 -- ungrammatical scripts always raise BlackbirdSyntaxError at the offending token."""
import os
import re
import tempfile
import warnings

from hypothesis import strategies as st

from ..model import ast as A, strategies as S, render
from ..g4 import sentences as G
from ..run import Outcome, Violation, exc_bucket, HarnessError
from .. import ref
from . import common as K

ID = "C10"
RULE = ("Texts are generated as (a) grammatical scripts rendered from the script model (all constructs) and sentences derived from "
        "blackbird.g4; (b) single-token deletion, insertion (from the token vocabulary), substitution, adjacent swap and truncation "
        "at a token of such texts; (c) token soups from the vocabulary; (d) raw character strings. Oracle: a reference recogniser "
        "built from blackbird.g4 at run time (NFA lexer + Earley) gives the verdict and the index k of the first token after which "
        "no sentence has the consumed tokens as a prefix. The syntax stage in isolation (listener.parse with a do-nothing listener) "
        "must return iff the text is grammatical and otherwise raise BlackbirdSyntaxError whose message carries '(line L:C)' with "
        "(L, C-1) the position of a token of index >= k; loads() (and load() from a temp file for ASCII texts) of an "
        "ungrammatical text must raise BlackbirdSyntaxError, never another exception, never a program. Non-trivial = ungrammatical "
        "text whose first bad token lies outside the metadata block. Distinct = SHA-1 of the text. The evidence reports the "
        "distribution of the first bad token over rule contexts.")
ASSUMPTIONS = ["reference recogniser (bbv/g4) equals the grammar's language; cross-checked against the shipped parser by C14",
               "exceptions of grammatical scripts raised by the semantic stage are C11's business"]
BUDGET = {"quick": (5000, 4), "thorough": (320000, 16)}

_CFGS = [S.Cfg(max_items=5, depth=1, params=True, regs=True, ascii_only=True),
         S.Cfg(max_items=5, depth=2, params=True, ascii_only=True, tdm=True, sym_vars=False)]

_VOCAB = None


def vocab():
    global _VOCAB
    if _VOCAB is None:
        _VOCAB = [s for _, s in G.vocabulary()]
    return _VOCAB


@st.composite
def base_text(draw):
    k = draw(st.integers(0, 9))
    if k <= 5:
        sc = draw(S.script(_CFGS[k % 2]))
        lay = draw(K.layout_light())
        try:
            return render.render(sc, K.to_layout(lay))
        except render.RenderError as e:
            raise HarnessError(str(e))
    if k <= 8:
        names = draw(G.sentence(max_depth=draw(st.integers(4, 10))))
        return draw(G.sentence_text(names))
    return draw(st.sampled_from(_corpus()))


_CORPUS = None


def _corpus():
    global _CORPUS
    if _CORPUS is None:
        import glob
        out = []
        for f in sorted(glob.glob(os.path.join(ref.REPO, "examples", "*.xbb"))):
            try:
                out.append(open(f, encoding="ascii").read())
            except Exception:
                pass
        _CORPUS = out or ["name a\nversion 1.0\nVac | 0\n"]
    return _CORPUS


@st.composite
def case(draw):
    kind = draw(st.sampled_from(["valid", "mutant", "mutant", "mutant", "mutant", "soup", "raw"]))
    if kind == "raw":
        return {"kind": kind, "text": draw(st.text(alphabet=st.one_of(
            st.sampled_from(list("abqpjJeE0123456789 \t\n\r()[]{}|,:=+-*/.\"#_")), st.characters(min_codepoint=32, max_codepoint=0x2fff)),
            max_size=40))}
    if kind == "soup":
        n = draw(st.integers(1, 25))
        toks = [draw(st.sampled_from(vocab())) for _ in range(n)]
        seps = [draw(st.sampled_from([" ", " ", "", "\n"])) for _ in range(n)]
        head = draw(st.sampled_from(["", "name a\nversion 1.0\n", "name a\nversion 1.0\ntarget x (a=1)\n"]))
        return {"kind": kind, "text": head + "".join(t + s for t, s in zip(toks, seps))}
    text = draw(base_text())
    le = draw(st.sampled_from(["lf", "lf", "lf", "crlf", "cr", "no-final-newline", "crlf-no-final-newline"]))
    if le.startswith("crlf"):
        text = text.replace("\r\n", "\n").replace("\n", "\r\n")
    elif le == "cr":
        text = text.replace("\r\n", "\n").replace("\n", "\r")
    if le.endswith("no-final-newline"):
        text = text.rstrip("\r\n")
    if kind == "valid":
        return {"kind": kind, "text": text}
    toks = ref.ref_tokens(text)[:-1]
    if not toks:
        return {"kind": "valid", "text": text}
    op = draw(st.sampled_from(["delete", "insert", "substitute", "swap", "truncate"]))
    i = draw(st.sampled_from(range(len(toks))))
    if op == "truncate" and draw(st.booleans()):
        # cut at the start of a line (the text then ends with a line terminator: end-of-input errors on a fresh line)
        starts = [j for j in range(1, len(toks)) if toks[j - 1].name == "NEWLINE"]
        if starts:
            i = draw(st.sampled_from(starts))
    t = toks[i]
    if op == "delete":
        new = text[:t.start] + text[t.stop + 1:]
    elif op == "insert":
        lex = draw(st.sampled_from(vocab()))
        new = text[:t.start] + lex + draw(st.sampled_from([" ", " ", ""])) + text[t.start:]
    elif op == "substitute":
        lex = draw(st.sampled_from(vocab()))
        new = text[:t.start] + lex + text[t.stop + 1:]
    elif op == "swap" and i + 1 < len(toks):
        u = toks[i + 1]
        new = text[:t.start] + u.text + text[t.stop + 1:u.start] + t.text + text[u.stop + 1:]
    else:
        op = "truncate"
        new = text[:t.start]
    return {"kind": "mutant:" + op, "text": new}


def strategy(tier):
    return case()


def dump_case(c):
    return c


def load_case(j):
    return j


_POS = re.compile(r"\(line (\d+):(\d+)\)")


def context_of(toks, k):
    """Coarse rule context of token k: metadata, scalar-declaration, array, statement, arguments, loop, end."""
    if k >= len(toks) - 1 and toks[k].name == "EOF":
        pass
    # tokens of the same physical line up to k
    i = k
    while i > 0 and toks[i - 1].name != "NEWLINE":
        i -= 1
    line = toks[i:k + 1]
    first = line[0].name if line else "EOF"
    depth = 0
    for t in line[:-1]:
        if t.name == "LBRAC":
            depth += 1
        elif t.name == "RBRAC":
            depth -= 1
    names = [t.name for t in line]
    if first in ("PROGNAME", "VERSION", "TARGET", "PROGTYPE", "INCLUDE"):
        return "metadata-arguments" if depth > 0 else "metadata"
    if first == "FOR":
        return "loop-header"
    if first == "TAB":
        # array row or loop body: look at the previous non-indented line
        j = i - 1
        while j > 0:
            j2 = j
            while j2 > 0 and toks[j2 - 1].name != "NEWLINE":
                j2 -= 1
            if toks[j2].name != "TAB":
                return "loop-body" if toks[j2].name == "FOR" else "array-rows"
            j = j2 - 1
        return "indented"
    if first.startswith("TYPE_"):
        return "array-declaration" if "TYPE_ARRAY" in names[:3] else "scalar-declaration"
    if depth > 0:
        return "statement-arguments"
    if first in ("NAME", "MEASURE"):
        return "statement"
    if first == "EOF":
        return "end-of-input"
    return "other"


class _Null:
    pass


def _null_listener():
    from blackbird.blackbirdListener import blackbirdListener

    class NullListener(blackbirdListener):
        def __init__(self, cwd=None):
            self.program = None
    return NullListener


def check(c):
    text = c["text"]
    import antlr4
    import blackbird
    from blackbird.listener import parse
    from blackbird.error import BlackbirdSyntaxError
    ok, k, toks = ref.ref_verdict(text)
    out = Outcome(key=text, classes=[c["kind"], "grammatical" if ok else "ungrammatical"])
    out.sample = {"text": text, "grammatical": ok, "first_bad_token": None if ok else [toks[k].name, toks[k].text, toks[k].line, toks[k].col + 1]}
    # ---- syntax stage in isolation
    try:
        with warnings.catch_warnings():
            warnings.simplefilter("ignore")
            parse(antlr4.InputStream(text), listener=_null_listener())
        err = None
    except RecursionError:
        return Outcome(discard="recursion")
    except Exception as e:
        err = e
    if ok:
        if err is not None:
            out.violations.append(Violation("grammatical-rejected|" + exc_bucket("syntax", err),
                                            "grammatical text rejected by the syntax stage: %s: %s\ntext: %r" % (type(err).__name__, err, text)))
            return out
        # the public entry point must see the same text as the parser: loads(s) is parse(InputStream(s))
        p1, e1 = K.safe_loads(text)
        try:
            with warnings.catch_warnings():
                warnings.simplefilter("ignore")
                parse(antlr4.InputStream(text))
            e2 = None
        except RecursionError:
            return Outcome(discard="recursion")
        except Exception as ex:
            e2 = ex
        if (e1 is None) != (e2 is None) or (e1 is not None and (type(e1) is not type(e2) or str(e1) != str(e2))):
            out.violations.append(Violation("loads-differs-from-parse|%s-vs-%s" % (type(e1).__name__ if e1 else "program", type(e2).__name__ if e2 else "program"),
                                            "loads(text): %s; parse(InputStream(text)): %s\ntext: %r" % (
                                                "%s: %s" % (type(e1).__name__, e1) if e1 else "program", "%s: %s" % (type(e2).__name__, e2) if e2 else "program", text)))
        return out
    ctx = context_of(toks, k)
    out.classes.append("context:" + ctx)
    out.nontrivial = not ctx.startswith("metadata")
    if err is None:
        out.violations.append(Violation("ungrammatical-accepted|" + ctx, "ungrammatical text passed the syntax stage (first bad token %r at %d:%d)\ntext: %r" % (
            toks[k].text, toks[k].line, toks[k].col + 1, text)))
        return out
    if not isinstance(err, BlackbirdSyntaxError):
        out.violations.append(Violation("wrong-exception|" + exc_bucket("syntax", err),
                                        "syntax error surfaced as %s: %s\ntext: %r" % (type(err).__name__, err, text)))
        return out
    m = _POS.search(str(err))
    if not m:
        out.violations.append(Violation("no-position|" + ctx, "message without (line L:C): %s\ntext: %r" % (err, text)))
        return out
    L, C = int(m.group(1)), int(m.group(2))
    hit = [i for i, t in enumerate(toks) if t.line == L and t.col + 1 == C]
    if not hit:
        out.violations.append(Violation("position-not-a-token|" + ctx, "reported %d:%d is not the 1-based position of any token (first bad token %r at %d:%d); message: %s\ntext: %r" % (
            L, C, toks[k].text, toks[k].line, toks[k].col + 1, err, text)))
        return out
    if max(hit) < k:
        out.violations.append(Violation("position-too-early|" + ctx, "reported %d:%d (token %r) lies before the first ungrammatical token %r at %d:%d; message: %s\ntext: %r" % (
            L, C, toks[max(hit)].text, toks[k].text, toks[k].line, toks[k].col + 1, err, text)))
        return out
    # ---- public API
    p, e = K.safe_loads(text)
    if e is None:
        out.violations.append(Violation("loads-accepted|" + ctx, "loads returned a program for an ungrammatical text\ntext: %r" % text))
    elif not isinstance(e, BlackbirdSyntaxError):
        out.violations.append(Violation("loads-wrong-exception|" + exc_bucket("loads", e),
                                        "loads raised %s: %s\ntext: %r" % (type(e).__name__, e, text)))
    else:
        m2 = _POS.search(str(e))
        hit2 = [i for i, t in enumerate(toks) if m2 and t.line == int(m2.group(1)) and t.col + 1 == int(m2.group(2))]
        if not hit2 or max(hit2) < k:
            out.violations.append(Violation("loads-position|" + ctx, "loads reports %s, which is not the position of a token at or after the first "
                                            "ungrammatical token %r at %d:%d\ntext: %r" % (str(e)[:160], toks[k].text, toks[k].line, toks[k].col + 1, text)))
    if text.isascii() and (len(text) % 5 == 0):
        d = tempfile.mkdtemp(prefix="bbv-c10-")
        try:
            path = os.path.join(d, "s.xbb")
            with open(path, "w", encoding="ascii", newline="") as f:
                f.write(text)
            p, e = K.safe_load_file(path)
            out.classes.append("load-from-file")
            if e is None:
                out.violations.append(Violation("load-accepted|" + ctx, "load returned a program for an ungrammatical file\ntext: %r" % text))
            elif not isinstance(e, BlackbirdSyntaxError):
                out.violations.append(Violation("load-wrong-exception|" + exc_bucket("load", e),
                                                "load raised %s: %s\ntext: %r" % (type(e).__name__, e, text)))
        finally:
            import shutil
            shutil.rmtree(d, ignore_errors=True)
    return out


# ------------------------------------------------------------------ coverage-guided second driver (thorough tier)

def extra(tier, seed):
    """atheris campaigns (tokens decoder with an empty corpus; raw decoder seeded with the example scripts)."""
    import glob
    import json
    import shutil
    import subprocess
    import sys
    if tier == "quick" and not os.environ.get("BBV_ATHERIS"):
        return {"buckets": {}, "evaluations": 0, "coverage": {"atheris": "thorough tier only"}}
    try:
        import atheris  # noqa
    except Exception as e:
        return {"buckets": {}, "evaluations": 0, "coverage": {"atheris": "not importable (%s): run ./setup.sh" % type(e).__name__}}
    runs = int(os.environ.get("BBV_ATHERIS_RUNS", "40000" if tier != "quick" else "4000"))
    work = tempfile.mkdtemp(prefix="bbv-c10-atheris-")
    procs = []
    try:
        for i in range(8 if tier != "quick" else 2):
            mode = "tokens" if i % 2 == 0 else "raw"
            corpus = os.path.join(work, "corpus%d" % i)
            os.makedirs(corpus)
            if mode == "raw":
                for f in glob.glob(os.path.join(ref.REPO, "examples", "*.xbb")):
                    shutil.copy(f, corpus)
            findings = os.path.join(work, "findings%d.jsonl" % i)
            cmd = [sys.executable, "-W", "ignore", "-m", "bbv.fuzz.atheris_c10", mode, findings, "-runs=%d" % runs,
                   "-seed=%d" % (seed * 100 + i + 1), "-max_len=%d" % (256 if mode == "tokens" else 400), corpus]
            procs.append((mode, findings, subprocess.Popen(cmd, stdout=subprocess.PIPE, stderr=subprocess.STDOUT, text=True)))
        buckets = {}
        total = 0
        notes = []
        for mode, findings, pr in procs:
            so, _ = pr.communicate()
            m = re.search(r"Done (\d+) runs", so)
            total += int(m.group(1)) if m else 0
            if pr.returncode != 0:
                notes.append("%s campaign exit %s: %s" % (mode, pr.returncode, so[-300:]))
            if os.path.exists(findings):
                for line in open(findings, encoding="utf-8"):
                    d = json.loads(line)
                    b = d["bucket"]
                    if b not in buckets or len(d["text"]) < buckets[b]["size"]:
                        buckets[b] = {"detail": d["detail"], "case": {"kind": "atheris:" + mode, "text": d["text"]}, "size": len(d["text"])}
        return {"buckets": buckets, "evaluations": total,
                "coverage": {"atheris_executions": total, "atheris_campaigns": len(procs), "atheris_runs_per_campaign": runs,
                             "atheris_notes": notes}}
    finally:
        shutil.rmtree(work, ignore_errors=True)

"""C11 -- ill-formed but grammatical programs are refused, never silently accepted."""
import os
import re
import shutil
import tempfile

from hypothesis import strategies as st

from ..model import ast as A, strategies as S, render, refsem
from ..run import Outcome, Violation, exc_bucket, HarnessError
from .. import ref
from . import common as K

ID = "C11"
RULE = ("Hypothesis constructs a valid script from the model and injects exactly ONE fault; fault class, syntactic slot and statement "
        "position are drawn independently. Classes: undefined name (fresh, declared later, equal to a parameter name, loop variable "
        "after its loop) in slots positional/keyword argument, list element, mode, array index expression, indexed array name, loop "
        "list, target/type option, scalar initialiser, array element, loop body, nested in brackets/functions; reserved name "
        "(qN, name, version, target, type) declared as scalar or array at any position; non-integer mode (float literal, computed "
        "float, complex, string variable, bool) in plain/bracketed/loop statements; complex value (literal, computed from a complex "
        "variable, product of complex literals, zero imaginary part) assigned to an int/float scalar or array; loop value not of the "
        "loop type; included program called with wrong mode count, missing/extra/misspelt keyword, positional arguments, or arguments "
        "to a non-template (files in a temp dir, blackbird.load). The reference recogniser confirms the faulty text is still "
        "grammatical. Oracle: load(s) raises and returns no program; for undefined and reserved names the exception is "
        "BlackbirdSyntaxError whose message contains the identifier and 'line L:C' with L the identifier's line and C its 0- or "
        "1-based column. Non-trivial = fault not in the first item and not in a positional argument. Distinct = SHA-1 of the text."
        " Wrong mode counts include lists with a repeated mode and a single unbracketed mode.")
ASSUMPTIONS = ["the base script is valid (reference interpreter accepts it), so the injected fault is the only one",
               "faults are only placed where they are evaluated (not in bodies of loops that run zero times)"]
BUDGET = {"quick": (2500, 4), "thorough": (64000, 16)}

_POS = re.compile(r"line (\d+):(\d+)")
_R = list(range(840))


def _cfg(tier):
    return S.Cfg(max_items=8 if tier != "quick" else 5, depth=1, params=True, ascii_only=True, options=True)


@st.composite
def case(draw, tier):
    script = draw(S.script(_cfg(tier)))
    fault = draw(st.sampled_from(["undefined"] * 5 + ["reserved"] * 2 + ["mode"] * 2 + ["complex"] * 2 + ["looptype", "include", "include"]))
    # (uniform selectors: 840 is divisible by every modulus used below)
    return {"script": script, "fault": fault, "r": [draw(st.sampled_from(_R)) for _ in range(8)],
            "fresh": draw(S.ident().filter(lambda n: len(n) >= 2))}


def strategy(tier):
    return case(tier)


dump_case, load_case = K.dump_case, K.load_case


def declared_names(script):
    names = set()
    for it in script.items:
        if isinstance(it, (A.ScalarDecl, A.ArrayDecl, A.ArrayParamDecl)):
            names.add(it.name)
        elif isinstance(it, A.For):
            names.add(it.var)
    return names


def _all_params(script):
    out = set()
    for it in script.items:
        vals = []
        if isinstance(it, A.ScalarDecl):
            vals = [it.init]
        elif isinstance(it, A.ArrayDecl):
            vals = [e for r in it.rows for e in r]
        elif isinstance(it, A.ArrayParamDecl):
            out.add(it.pname)
        elif isinstance(it, (A.Stmt, A.For)):
            for s_ in (it.body if isinstance(it, A.For) else [it]):
                if s_.args is not None:
                    vals += list(s_.args.pos) + [v for _, v in s_.args.kwargs]
        for v in vals:
            for x in (v.items if isinstance(v, A.ListVal) else [v]):
                if isinstance(x, A.Flat):
                    out |= {p.name for p in A.walk_prims(x) if isinstance(p, A.Param)}
    return out


def _wrap(name, how):
    """Expression mentioning the (undefined) name, possibly nested."""
    v = A.Operand("", A.Var(name))
    two = A.Operand("", A.Num("int", "2"))
    forms = [
        A.Flat([v], []),
        A.Flat([A.Operand("-", A.Var(name))], []),
        A.Flat([two, v], ["*"]),
        A.Flat([A.Operand("", A.Paren(A.Flat([v, two], ["+"])))], []),
        A.Flat([A.Operand("", A.Fn("sin", A.Flat([v], [])))], []),
        A.Flat([two, A.Operand("", A.Paren(A.Flat([A.Operand("", A.Fn("sqrt", A.Flat([v, two], ["*"])))], [])))], ["**"]),
    ]
    return forms[how % len(forms)]


def _live_loops(script):
    """Indices of loops whose body executes at least once."""
    out = []
    for i, it in enumerate(script.items):
        if isinstance(it, A.For):
            try:
                env = refsem.run(A.Script(script.name, script.version, None, None, [], script.items[:i])).variables
                if refsem.loop_values(it, env):
                    out.append(i)
            except Exception:
                pass
    return out


def inject(c):
    """Returns (bad script, expectation dict) or None when the drawn fault does not fit the base script."""
    script, r, fault = c["script"], c["r"], c["fault"]
    items = list(script.items)
    declared = declared_names(script)
    params = _all_params(script)
    zero = S.F1(A.Num("int", "0"))
    target, ptype = script.target, script.ptype

    def rebuild(items_, target_=None, ptype_=None):
        return A.Script(script.name, script.version, target_ if target_ is not None else target,
                        ptype_ if ptype_ is not None else ptype, [], items_)

    if fault == "undefined":
        kind = ["fresh", "fresh", "later", "param", "loopvar"][r[0] % 5]
        pos_limit = None
        name = c["fresh"]
        if name in declared or name in params:
            name = name + "_u9"
        if kind == "later":
            cands = [(i, it.name) for i, it in enumerate(items) if isinstance(it, (A.ScalarDecl, A.ArrayDecl))
                     and it.name not in {x.name for x in items[:i] if isinstance(x, (A.ScalarDecl, A.ArrayDecl, A.ArrayParamDecl))}]
            if cands:
                pos_limit, name = cands[r[1] % len(cands)]
        elif kind == "param" and params:
            cand = sorted(p for p in params if p not in declared)
            if cand:
                name = cand[r[1] % len(cand)]
        elif kind == "loopvar":
            loops = [(i, it.var) for i, it in enumerate(items) if isinstance(it, A.For)]
            if loops:
                i, name = loops[r[1] % len(loops)]
                pos_limit = -(i + 1)       # must come after loop i
        slot = ["arg", "kwarg", "list", "mode", "index", "arrayname", "looplist", "option", "scalar", "arrayelem", "loopbody", "arg"][r[2] % 12]
        e = _wrap(name, r[3])
        # insertion position among the items
        lo, hi = 0, len(items)
        if pos_limit is not None:
            if pos_limit >= 0:
                hi = pos_limit            # before the later declaration
            else:
                lo = -pos_limit           # after the loop
        at = lo + (r[4] % (hi - lo + 1)) if hi >= lo else lo
        exp = {"kind": "undefined", "ident": name, "slot": slot, "first": at == 0}
        if slot == "option":
            if kind in ("later", "loopvar"):
                slot = "arg"
                exp["slot"] = "arg"
            else:
                # keyword option, or a positional one (tolerated with a warning when well-formed), alone or before a keyword option
                form = r[6] % 3
                oargs = [A.Args([], [["opt", e]], False), A.Args([e], [], False), A.Args([e], [["opt", zero]], False)][form]
                if form:
                    exp["slot"] = "option-positional"
                which = r[5] % 2
                exp["first"] = True
                return (rebuild(items, A.Meta("dev9", oargs), None) if which == 0 else rebuild(items, None, A.Meta("ty9", oargs))), exp
        arrays = [it.name for it in items[:at] if isinstance(it, A.ArrayDecl)
                  and not any(isinstance(p, A.Param) for r_ in it.rows for x in r_ for p in A.walk_prims(x))]
        if slot == "arg":
            new = A.Stmt("Fault", A.Args([zero, e], [], False), [zero])
        elif slot == "kwarg":
            new = A.Stmt("Fault", A.Args([zero], [["k", e]], False), [zero])
        elif slot == "list":
            new = A.Stmt("Fault", A.Args([], [["k", A.ListVal([zero, e])]], False), [zero])
        elif slot == "mode":
            new = A.Stmt("Fault", None, [zero, A.Flat([A.Operand("", A.Var(name))], [])], "[", "]")
        elif slot == "index":
            if not arrays:
                items.insert(at, A.ArrayDecl("int", "ia9", None, [[zero, S.F1(A.Num("int", "1"))]]))
                at += 1
                arrays = ["ia9"]
                exp["first"] = False
            new = A.Stmt("Fault", A.Args([S.F1(A.Idx(arrays[r[5] % len(arrays)], e))], [], False), [zero])
        elif slot == "arrayname":
            new = A.Stmt("Fault", A.Args([S.F1(A.Idx(name, zero))], [], False), [zero])
        elif slot == "looplist":
            new = A.For("float", "lv9", A.ForList([S.F1(A.Num("float", "1.5")), e], "[", "]"), [A.Stmt("Body", None, [zero])])
        elif slot == "scalar":
            new = A.ScalarDecl("float", "sc9", e)
        elif slot == "arrayelem":
            new = A.ArrayDecl("float", "ar9", None, [[S.F1(A.Num("float", "1.0")), e]])
        else:
            live = [i for i in _live_loops(script) if (pos_limit is None) or (pos_limit >= 0 and i < pos_limit)]
            if kind == "loopvar":
                return None
            if not live:
                new = A.For("int", "lv9", A.Range("0", "2"), [A.Stmt("Body", None, [S.F1(A.Var("lv9"))]),
                                                               A.Stmt("Fault", A.Args([e], [], False), [zero])])
                items.insert(at, new)
                exp["first"] = False
                return rebuild(items), exp
            i = live[r[5] % len(live)]
            lp = items[i]
            body = list(lp.body)
            body.insert(r[6] % (len(body) + 1), A.Stmt("Fault", A.Args([e], [], False), [zero]))
            items[i] = A.For(lp.vtype, lp.var, lp.header, body)
            exp["first"] = False
            return rebuild(items), exp
        items.insert(at, new)
        return rebuild(items), exp

    at = r[4] % (len(items) + 1)
    if fault == "reserved":
        name = ["q%d" % (r[0] % 200), "name", "version", "target", "type", "q0"][r[1] % 6]
        if r[2] % 2 == 0:
            vt = ["int", "float", "complex", "str", "bool"][r[3] % 5]
            init = {"int": zero, "float": S.F1(A.Num("float", "1.5")), "complex": S.F1(A.Num("complex", "2j")), "str": A.Str("s"), "bool": A.Bool(True)}[vt]
            new = A.ScalarDecl(vt, name, init)
        else:
            new = A.ArrayDecl(["int", "float", "complex"][r[3] % 3], name, None if r[5] % 2 else ["1", "2"], [[zero, S.F1(A.Num("int", "1"))]])
        items.insert(at, new)
        return rebuild(items), {"kind": "reserved", "ident": name, "slot": "array-declaration" if r[2] % 2 else "scalar-declaration", "first": at == 0}
    if fault == "mode":
        pre = []
        how = r[0] % 9
        if how == 0:
            m = S.F1(A.Num("float", "1.5"))
        elif how == 1:
            m = A.Flat([A.Operand("", A.Num("int", "4")), A.Operand("", A.Num("int", "2"))], ["/"])
        elif how == 2:
            m = S.F1(A.Num("complex", "1j"))
        elif how == 3:
            pre = [A.ScalarDecl("str", "sm9", A.Str("1"))]
            m = S.F1(A.Var("sm9"))
        elif how == 4:
            m = S.F1(A.Num("float", "2.0"))
        elif how == 5:
            pre = [A.ScalarDecl("float", "fm9", S.F1(A.Num("int", "1")))]
            m = S.F1(A.Var("fm9"))
        elif how == 6:
            pre = [A.ArrayDecl("float", "am9", None, [[S.F1(A.Num("float", "0.5")), S.F1(A.Num("float", "1.0"))]])]
            m = S.F1(A.Var("am9"))                          # a whole (float) array in the mode slot
        elif how == 7:
            pre = [A.ArrayDecl("int", "am9", None, [[S.F1(A.Num("int", "1")), S.F1(A.Num("int", "2"))]])]
            m = S.F1(A.Var("am9"))                          # a whole int array is not an integer either
        else:
            # (a bool variable in the mode slot is NOT asserted: Python booleans are integers and the property lists
            #  float, complex and string modes)
            pre = [A.ArrayDecl("complex", "am9", None, [[S.F1(A.Num("complex", "1j"))]])]
            m = S.F1(A.Var("am9"))
        lbr, rbr = [("", ""), ("[", "]"), ("(", ")")][r[1] % 3]
        modes = [zero, m] if r[2] % 2 else [m]
        st_ = A.Stmt("Fault", None if r[3] % 2 else A.Args([zero], [], False), modes, lbr, rbr)
        slot = "statement"
        if r[5] % 3 == 0:
            st_ = A.For("int", "lv9", A.Range("0", "2"), [st_])
            slot = "loop-statement"
        for d in pre:
            items.insert(at, d)
            at += 1
        items.insert(at, st_)
        return rebuild(items), {"kind": "mode", "slot": slot, "first": at == 0}
    if fault == "complex":
        how = r[0] % 5
        pre = []
        if how == 0:
            e = S.F1(A.Num("complex", "1+2j"))
        elif how == 1:
            pre = [A.ScalarDecl("complex", "zc9", S.F1(A.Num("complex", "1+2j")))]
            e = A.Flat([A.Operand("", A.Var("zc9")), A.Operand("", A.Num("int", "2"))], ["*"])
        elif how == 2:
            e = A.Flat([A.Operand("", A.Num("complex", "2j")), A.Operand("", A.Num("complex", "3j"))], ["*"])
        elif how == 3:
            pre = [A.ScalarDecl("complex", "zc9", S.F1(A.Num("complex", "1+2j")))]
            e = A.Flat([A.Operand("", A.Var("zc9")), A.Operand("", A.Num("complex", "2j"))], ["-"])
        else:
            e = A.Flat([A.Operand("", A.Num("float", "1.5")), A.Operand("", A.Num("complex", "0j"))], ["+"])
        vt = ["int", "float"][r[1] % 2]
        if r[2] % 2 == 0:
            new = A.ScalarDecl(vt, "cx9", e)
            slot = "scalar-declaration"
        else:
            one = S.F1(A.Num("int", "1")) if vt == "int" else S.F1(A.Num("float", "1.0"))
            rows = [[one, e]] if r[3] % 2 else [[one, one], [e, one]]
            new = A.ArrayDecl(vt, "cx9", None, rows)
            slot = "array-declaration"
        for d in pre:
            items.insert(at, d)
            at += 1
        items.insert(at, new)
        return rebuild(items), {"kind": "complex", "slot": slot, "first": at == 0}
    if fault == "looptype":
        vt = ["int", "float", "bool", "str"][r[0] % 4]
        good = {"int": S.F1(A.Num("int", "1")), "float": S.F1(A.Num("float", "0.5")), "bool": A.Bool(True), "str": A.Str("a")}[vt]
        if r[5] % 5 == 0 and vt in ("str", "bool"):
            # a range over a non-numeric loop type: 0, 1, 2 are not strings, 2 is not a boolean
            items.insert(at, A.For(vt, "lv9", A.Range("0", str(3 + r[2] % 3)), [A.Stmt("Body", A.Args([S.F1(A.Var("lv9"))], [], False), [zero])]))
            return rebuild(items), {"kind": "looptype", "slot": "loop-range", "first": at == 0}
        wrong = {"int": [S.F1(A.Num("float", "1.5")), A.Str("a"), S.F1(A.Num("complex", "1j")), S.F1(A.Num("float", "2.00001")), S.F1(A.Num("float", "1e-9"))],
                 "float": [A.Str("x"), S.F1(A.Num("complex", "2j")), A.Str("1.5"), A.Str("inf"), S.F1(A.Num("complex", "1+1e-12j"))],
                 "bool": [S.F1(A.Num("int", "2")), S.F1(A.Num("float", "0.5")), A.Str("True"), S.F1(A.Num("float", "1e-9")), S.F1(A.Num("float", "0.99999999999"))],
                 "str": [S.F1(A.Num("int", "1")), S.F1(A.Num("float", "2.5")), A.Bool(True), A.Bool(False), S.F1(A.Num("int", "0"))]}[vt][r[1] % 5]
        vals = [good, good]
        vals.insert(r[2] % 3, wrong)
        lbr, rbr = [("", ""), ("[", "]"), ("(", ")")][r[3] % 3]
        items.insert(at, A.For(vt, "lv9", A.ForList(vals, lbr, rbr), [A.Stmt("Body", A.Args([S.F1(A.Var("lv9"))], [], False), [zero])]))
        return rebuild(items), {"kind": "looptype", "slot": "loop-list", "first": at == 0}
    if fault == "include":
        return rebuild(items), {"kind": "include", "slot": "call", "first": False, "how": r[0] % 11, "at": at, "via": (r[0] // 11) % 3 == 0}
    return None


_SUBS = {
    # variant A is loaded first through a valid main script; the files are then rewritten as variant B
    "A": {"plainsub.xbb": "name plainsub\nversion 1.0\nSgate(0.5) | 3\nBSgate | [3, 7]\n",
          "tmplsub.xbb": "name tmplsub\nversion 1.0\nSgate({alpha}, {beta}) | 2\nRgate({alpha}) | 5\n"},
    "B": {"plainsub.xbb": "name plainsub\nversion 1.0\nSgate(0.5) | 3\nBSgate | [3, 7]\nVac | 9\n",
          "tmplsub.xbb": "name tmplsub\nversion 1.0\nSgate({alpha}, {gamma}) | 2\nRgate({alpha}) | 5\n"},
}
_VALID_MAIN_A = ('name primer\nversion 1.0\ninclude "plainsub.xbb"\ninclude "tmplsub.xbb"\n'
                 'plainsub | [10, 11]\ntmplsub(alpha=0.1, beta=0.2) | [10, 11]\n')


def include_fault(script, exp):
    """Faulty call w.r.t. variant B of the include files (several are valid w.r.t. variant A)."""
    how = exp["how"]
    items = list(script.items)
    zero, one, two = [S.F1(A.Num("int", str(i))) for i in (10, 11, 12)]
    f = lambda t: S.F1(A.Num("float", t))
    calls = [
        ("wrong mode count (2 modes for a 3-mode program; right before the file was rewritten)", A.Stmt("plainsub", None, [zero, one], "[", "]")),
        ("wrong mode count (too many)", A.Stmt("tmplsub", A.Args([], [["alpha", f("0.1")], ["gamma", f("0.2")]], False), [zero, one, two], "[", "]")),
        ("missing keyword", A.Stmt("tmplsub", A.Args([], [["alpha", f("0.1")]], False), [zero, one], "[", "]")),
        ("misspelt keyword (beta, right before the file was rewritten)", A.Stmt("tmplsub", A.Args([], [["alpha", f("0.1")], ["beta", f("0.2")]], False), [zero, one], "[", "]")),
        ("positional arguments to a template", A.Stmt("tmplsub", A.Args([f("0.1"), f("0.2")], [], False), [zero, one], "[", "]")),
        ("arguments to a non-template", A.Stmt("plainsub", A.Args([], [["alpha", f("0.1")]], False), [zero, one, two], "[", "]")),
        ("all keywords plus an unknown extra one", A.Stmt("tmplsub", A.Args([], [["alpha", f("0.1")], ["gamma", f("0.2")], ["sq", f("0.5")]], False), [zero, one], "[", "]")),
        ("empty argument list for a template", A.Stmt("tmplsub", A.Args([], [], False), [zero, one], "[", "]")),
        ("wrong mode count (too many, one mode written twice)", A.Stmt("tmplsub", A.Args([], [["alpha", f("0.1")], ["gamma", f("0.2")]], False), [zero, zero, one], "[", "]")),
        ("wrong mode count (a single mode for a 2-mode template)", A.Stmt("tmplsub", A.Args([], [["alpha", f("0.1")], ["gamma", f("0.2")]], False), [zero], "", "")),
        ("wrong mode count (4 modes, two of them repeated, for a 3-mode program)", A.Stmt("plainsub", None, [zero, one, two, one], "[", "]")),
    ]
    desc, st_ = calls[how]
    items.insert(exp["at"], st_)
    incs = ["plainsub.xbb", "tmplsub.xbb"]
    if exp.get("via"):
        # the called programs are only known through an include of an include (chip.xbb includes both files)
        incs = ["chip.xbb"]
        desc += " -- program included through another included file"
    return A.Script(script.name, script.version, script.target, script.ptype, incs, items), desc


_CHIP = 'name chip\nversion 1.0\ninclude "plainsub.xbb"\ninclude "tmplsub.xbb"\nVac | 0\n'


def check(c):
    base = c["script"]
    try:
        K.reference(base)
    except K.Discard as d:
        return Outcome(discard=d.reason)
    res = inject(c)
    if res is None:
        return Outcome(discard="fault-does-not-fit-base-script")
    bad, exp = res
    desc = exp["kind"]
    tmpdir = None
    try:
        if exp["kind"] == "include":
            bad, desc = include_fault(bad, exp)
        try:
            text = render.render(bad)
        except render.RenderError as e:
            raise HarnessError(str(e))
        ok, k, toks = ref.ref_verdict(text)
        if not ok:
            raise HarnessError("C11 fault made the text ungrammatical at token %d:\n%s" % (k, text))
        out = Outcome(key=text, classes=["fault:" + exp["kind"], "slot:" + exp["slot"]],
                      sample={"script": text, "fault": desc, "slot": exp["slot"]})
        out.nontrivial = (not exp["first"]) and exp["slot"] != "arg"
        if exp["kind"] == "include":
            tmpdir = tempfile.mkdtemp(prefix="bbv-c11-")
            for variant in ("A", "B"):
                for name, body in _SUBS[variant].items():
                    with open(os.path.join(tmpdir, name), "w", encoding="ascii", newline="") as f:
                        f.write(body)
                with open(os.path.join(tmpdir, "chip.xbb"), "w", encoding="ascii", newline="") as f:
                    f.write(_CHIP)
                if variant == "A":
                    primer = os.path.join(tmpdir, "primer.xbb")
                    with open(primer, "w", encoding="ascii", newline="") as f:
                        f.write(_VALID_MAIN_A)
                    _, pe = K.safe_load_file(primer)
                    if pe is not None:
                        return Outcome(discard="include-primer-failed:" + type(pe).__name__)
            path = os.path.join(tmpdir, "main.xbb")
            with open(path, "w", encoding="ascii", newline="") as f:
                f.write(text)
            p, e = K.safe_load_file(path)
        else:
            p, e = K.safe_loads(text)
        if e is None:
            out.violations.append(Violation("accepted|%s|%s" % (exp["kind"], exp["slot"] if exp["kind"] != "include" else desc),
                                            "faulty script (%s in %s) was turned into a program with operations %r\n%s" % (
                                                desc, exp["slot"], p.operations[:6], text)))
            return out
        if exp["kind"] in ("undefined", "reserved"):
            ident = exp["ident"]
            if type(e).__name__ != "BlackbirdSyntaxError":
                out.violations.append(Violation("wrong-exception|%s|%s" % (exp["kind"], exc_bucket("load", e)),
                                                "expected BlackbirdSyntaxError naming %r, got %s: %s\n%s" % (ident, type(e).__name__, e, text)))
                return out
            msg = str(e)
            if ("'%s'" % ident) not in msg:
                out.violations.append(Violation("message-without-identifier|%s|%s" % (exp["kind"], exp["slot"]),
                                                "message %r does not name %r\n%s" % (msg, ident, text)))
                return out
            m = _POS.search(msg)
            cands = _ident_positions(toks, ident, exp)
            if not m or not any(int(m.group(1)) == L and int(m.group(2)) in (C, C + 1) for L, C in cands):
                out.violations.append(Violation("wrong-position|%s|%s" % (exp["kind"], exp["slot"]),
                                                "message %r; identifier %r is at (line, 0-based col) %r\n%s" % (msg, ident, cands, text)))
        return out
    finally:
        if tmpdir:
            shutil.rmtree(tmpdir, ignore_errors=True)


def _ident_positions(toks, ident, exp):
    """Positions at which the offending identifier is written (the first evaluated occurrence is among them)."""
    out = []
    for i, t in enumerate(toks):
        if t.text != ident:
            continue
        if exp["kind"] == "reserved":
            if i > 0 and toks[i - 1].name.startswith("TYPE_"):
                out.append((t.line, t.col))
        else:
            prev = toks[i - 1].name if i else ""
            nxt = toks[i + 1].name if i + 1 < len(toks) else ""
            if prev == "LBRACE" and nxt == "RBRACE":
                continue        # {name}: a parameter, not a variable reference
            if prev.startswith("TYPE_") or prev == "FOR" or (prev == "TYPE_ARRAY"):
                continue        # declaration site
            if nxt == "ASSIGN" and prev in ("LBRAC", "COMMA"):
                continue        # keyword name
            out.append((t.line, t.col))
    return out

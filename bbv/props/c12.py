"""C12 -- each load is independent of every earlier load in the process (history property)."""
import atexit
import json
import os
import subprocess
import sys

from hypothesis import strategies as st

from ..model import ast as A, strategies as S, render
from ..run import Outcome, Violation, HarnessError, sha
from .. import ref
from . import common as K
from . import c11

ID = "C12"
RULE = ("A history = up to 12 (thorough 30) generated steps executed in ONE fresh process forked from a pristine zygote (an interpreter "
        "that imported the package and never loaded anything): load a valid script; load a template; load a script that fails at a "
        "chosen stage (syntax error after several declarations; undefined name late in the script; failure inside a loop body; "
        "failure inside an included file; tdm script failing after its p-arrays); load a probe script whose target/type options and "
        "body mention names from a deliberately tiny shared pool (n x A i p0 a) so that leftovers collide; load from files with "
        "includes (relative paths, rewritten between steps at the same path); load a very long sum or deeply nested brackets (loads or "
        "exhausts the recursion limit -- the same either way); mutate a previously returned program. Oracle: the "
        "outcome of every load (canonical program content, or exception type + message) must equal the outcome of the same call "
        "executed alone in another process forked from the zygote; after every step all programs returned earlier must be unchanged "
        "unless the machine itself mutated them. Non-trivial = a failed load followed later by a probe/valid script mentioning a name "
        "the failed script had defined. Distinct = SHA-1 of the step list. The step list shrinks as one value.")
RULE += (" One group in seven loads a 'conversion corner' script (scalars initialised from whole arrays, complex values for real "
         "variables) and later a script whose outcome passes through NumPy's warning / floating-point error machinery (computed "
         "complex values in real loops, division by a zero element, overflow, arguments outside a function's real domain); the "
         "worker silences warnings once per process and never scopes a filter around a load, so settings a load leaves behind "
         "stay visible.")
ASSUMPTIONS = ["the zygote never loads a script, so its children start from the state 'package imported'",
               "temporary directory names are scrubbed from messages"]
BUDGET = {"quick": (320, 4), "thorough": (6400, 16)}

POOL = ["n", "x", "A", "i", "p0", "a"]
_Z = {}


def zygote():
    if "p" not in _Z or _Z["p"].poll() is not None:
        env = dict(os.environ)
        p = subprocess.Popen([sys.executable, "-W", "ignore", "-m", "bbv.zygote"], stdin=subprocess.PIPE, stdout=subprocess.PIPE,
                             text=True, env=env, bufsize=1, start_new_session=True)
        line = p.stdout.readline()
        if line.strip() != "READY":
            raise HarnessError("zygote did not start: %r" % line)
        _Z["p"] = p
        atexit.register(_stop)
    return _Z["p"]


def _stop():
    p = _Z.get("p")
    if p and p.poll() is None:
        try:
            p.stdin.write("QUIT\n")
            p.stdin.flush()
            p.wait(timeout=5)
        except Exception:
            p.kill()


def after_timeout():
    """A history did not finish in time: the zygote and the child still working on it are killed; the next case starts a new one."""
    import signal
    p = _Z.pop("p", None)
    if p is not None:
        try:
            os.killpg(p.pid, signal.SIGKILL)
        except Exception:
            pass
        try:
            p.wait(timeout=5)
        except Exception:
            pass


def ask(steps):
    z = zygote()
    z.stdin.write(json.dumps({"steps": steps}) + "\n")
    z.stdin.flush()
    line = z.stdout.readline()
    if not line:
        raise HarnessError("zygote died")
    res = json.loads(line)
    if "fatal" in res:
        raise HarnessError("zygote child failed: %s" % res["fatal"])
    return res


_SINGLE = {}


def pristine(step):
    key = sha(json.dumps(step, sort_keys=True))
    if key not in _SINGLE:
        if len(_SINGLE) > 20000:
            _SINGLE.clear()
        _SINGLE[key] = ask([step])["outcomes"][0]
    return _SINGLE[key]


# ------------------------------------------------------------------ generation

def _cfg(params=False, tdm=False, regs=False):
    return S.Cfg(max_items=6, depth=1, params=params, tdm=tdm, regs=regs, ascii_only=True, names=POOL, sym_vars=not tdm, options=True)


@st.composite
def probe_text(draw, force=None):
    """A script whose metadata options and body mention pool names without declaring them first."""
    names = draw(st.lists(st.sampled_from(POOL), min_size=1, max_size=3))
    if force:
        names = [force] + names[:1]
    lines = ["name probe", "version 1.0"]
    k = draw(st.integers(0, 3))
    if k in (0, 2):
        lines.append("target dev (shots=%s)" % names[0])
    if k in (1, 2):
        lines.append("type %s (opt=%s, flag=True)" % (draw(st.sampled_from(["tdm", "other"])), names[-1]))
    decl = draw(st.lists(st.sampled_from(["int n = 3", "float x = 0.5", "int array A =\n    1, 2", "float array p0 =\n    0.1, 0.2", "float a = 1.5"]), max_size=2, unique=True))
    if force:
        decl = [d for d in decl if d.split()[-3 if "array" not in d else 2] != force and (" %s " % force) not in d]
    lines.extend(decl)
    fp_at = len(lines)
    for nm in names:
        form = draw(st.sampled_from(["G(%s) | 0", "G(k=%s) | 1", "G(%s[0]) | 0", "G | %s", "G(2*%s+1) | 0", "G({%s}) | 0", "for int j9 in [1, %s]\n    H | 0"]))
        lines.append(form % nm)
    if draw(st.integers(0, 3)) == 0:
        # floating-point corner cases whose outcome depends on NumPy's process-wide error state (np.seterr);
        # placed before the statements that mention (possibly undefined) names
        lines.insert(fp_at, draw(st.sampled_from(["G(log(0)) | 0", "G(0.0**-1) | 0", "G(arctanh(1)) | 0", "G(1/0.0) | 1", "G(exp(1000)) | 0",
                                           "float big = 1e308*10", "G(sqrt(-1)) | 0", "G(0.0/0.0) | 0"])))
    if draw(st.integers(0, 2)) == 0:
        # an operation named like a program some other script includes
        lines.append(draw(st.sampled_from(["sub | [10, 11]", "sub(a=0.3) | [1, 2]", "main | 0"])))
    return "\n".join(lines) + "\n"


@st.composite
def failing(draw):
    kind = draw(st.sampled_from(["late-undefined", "late-undefined", "syntax", "loop-body", "tdm", "complex"]))
    if kind == "syntax":
        sc = draw(S.script(_cfg()))
        text = render.render(sc)
        toks = ref.ref_tokens(text)[:-1]
        cands = [t for t in toks[6:] if t.name in ("APPLY", "ASSIGN", "RBRAC", "NAME", "INT")]
        if cands:
            t = draw(st.sampled_from(cands))
            text = text[:t.start] + draw(st.sampled_from(["", "$", ") )", "= ="])) + text[t.stop + 1:]
        else:
            text += "G(1,,2) | 0\n"
        return text
    if kind == "loop-body" and draw(st.booleans()):
        # fails while a loop variable from the shared pool is bound
        sc = draw(S.script(_cfg()))
        v = draw(st.sampled_from(POOL))
        vt, hdr, use = draw(st.sampled_from([("int", "0:3", "G(%s) | %s"), ("float", "[0.5, 1.5]", "G(%s) | 0"), ("str", '["s", "t"]', "G(k=%s) | 0")]))
        body = (use % ((v, v) if use.count("%s") == 2 else (v,)))
        return render.render(sc) + "for %s %s in %s\n    %s\n    G(zz_undefined) | 1\n" % (vt, v, hdr, body)
    tdm = kind == "tdm"
    sc = draw(S.script(_cfg(tdm=tdm)))
    r = [draw(st.integers(0, 1000)) for _ in range(8)]
    fault = {"late-undefined": "undefined", "loop-body": "undefined", "tdm": "undefined", "complex": "complex"}[kind]
    r[0] = 0                       # fresh name
    if kind == "loop-body":
        r[2] = 10
    elif fault == "undefined":
        r[2] = draw(st.sampled_from([0, 1, 2, 3, 8, 9]))
    r[4] = len(sc.items)           # as late as possible
    res = c11.inject({"script": sc, "fault": fault, "r": r, "fresh": "zz_undefined"})
    if res is None:
        return render.render(sc) + "G(zz_undefined) | 0\n"
    return render.render(res[0])


@st.composite
def file_step(draw):
    """A load from files with an include; the include file content varies between steps at the same relative path."""
    variant = draw(st.integers(0, 3))
    sub = ["name sub\nversion 1.0\nSgate(0.5) | 3\nBSgate | [3, 7]\n",
           "name sub\nversion 1.0\nint n = 2\nSgate({a}, n) | 2\nRgate({a}) | 5\n",
           "name sub\nversion 1.0\nint n = 4\nfloat x = 0.5\nVac | 1\nG(zz_undefined) | 0\n",
           "name sub\nversion 1.0\nVac | 1\nVac | 2\nVac | 4\n"][variant]
    call = draw(st.sampled_from(["sub | [10, 11]", "sub(a=0.3) | [10, 11]", "sub | [10, 11, 12]", "sub | [10, 11]\nsub | [12, 13]"]))
    extra = draw(st.sampled_from(["", "G(n) | 0\n", "G(x) | 0\n", "int n = 7\nG(n) | 0\n"]))
    layout = draw(st.sampled_from([("main.xbb", "sub.xbb", "sub.xbb", "."), ("main.xbb", "inc/sub.xbb", "inc/sub.xbb", "."),
                                   ("m/main.xbb", "sub.xbb", "../sub.xbb", "m"), ("m/main.xbb", "m/sub.xbb", "sub.xbb", ".")]))
    main_rel, sub_rel, inc_text, cwd = layout
    main = 'name main\nversion 1.0\ninclude "%s"\n%s%s\n' % (inc_text, extra, call)
    if draw(st.integers(0, 5)) == 0:
        # the include file does not exist next to this main script (directory 'q' is never written by any step):
        # files of the same name loaded earlier from other directories must not be found instead
        return {"kind": "load", "files": {"q/main.xbb": 'name main\nversion 1.0\ninclude "%s"\n%s%s\n' % (posixpath_basename(sub_rel), extra, call)},
                "main": "q/main.xbb", "cwd": draw(st.sampled_from([".", "q"]))}
    return {"kind": "load", "files": {main_rel: main, sub_rel: sub}, "main": main_rel, "cwd": cwd}


def posixpath_basename(p):
    return p.rsplit("/", 1)[-1]


@st.composite
def step(draw):
    k = draw(st.sampled_from(["valid", "valid", "registers", "registers", "template", "failing", "failing", "failing", "probe", "probe", "probe", "files", "files", "files", "mutate", "mutate", "deep"]))
    if k == "deep":
        # very long sums / deeply nested brackets: whether they load or exhaust the interpreter's recursion limit must not
        # depend on what was loaded before (sizes stay clear of the limit itself, which lies near 950 terms)
        if draw(st.booleans()):
            n = draw(st.sampled_from([300, 600, 1500, 2500, 3200, 4200, 5500]))
            e = "+".join(["1"] * n)
        else:
            n = draw(st.sampled_from([20, 60, 400, 1200]))
            e = "(" * n + "1" + ")" * n
        return {"kind": "loads", "text": "name deep\nversion 1.0\nfloat x = %s\nG(x) | 0\n" % e, "role": "deep-expression"}
    if k == "valid":
        c = draw(st.integers(0, 4))
        if c == 0:
            return {"kind": "loads", "text": render.render(draw(S.script(_cfg(tdm=True)))), "role": "valid-tdm"}
        if c == 1:
            return {"kind": "loads", "text": render.render(draw(S.script(_cfg(regs=True)))), "role": "valid-registers"}
        return {"kind": "loads", "text": render.render(draw(S.script(_cfg()))), "role": k}
    if k == "registers":
        # the same few register expressions recur across loads (a cache of transforms would be shared)
        args = draw(st.lists(st.sampled_from(["2*q0", "q0+q1", "-q0"]), min_size=1, max_size=2))
        body = "".join("G(%s) | %d\n" % (a, i) for i, a in enumerate(args))
        return {"kind": "loads", "text": "name regs\nversion 1.0\n" + body, "role": "valid-registers"}
    if k == "template":
        return {"kind": "loads", "text": render.render(draw(S.script(_cfg(params=True)))), "role": k}
    if k == "failing":
        return {"kind": "loads", "text": draw(failing()), "role": k}
    if k == "probe":
        return {"kind": "loads", "text": draw(probe_text()), "role": k}
    if k == "files":
        s = draw(file_step())
        s["role"] = k
        return s
    return {"kind": "mutate", "target": draw(st.integers(0, 5)), "how": draw(st.sampled_from(list(range(9)) + [9, 10] * 3)), "role": k}


_H = "name corner\nversion 1.0\n"
# declarations that take the evaluator through its rarely used conversion paths (scalars initialised from whole arrays,
# complex values where real ones are declared): loaded or refused, the same way whatever came before
_CORNER = [_H + "float array A =\n    1.0, 2.0\nfloat x = A\nG(x) | 0\n",
           _H + "complex array U =\n    1.0+2j, 2.0\nfloat x = U\nG(x) | 0\n",
           _H + "float array A =\n    1.5, 2.0\nint n = A\nG(n) | 0\n",
           _H + "complex array U =\n    1.0+2j, 2.0\ncomplex z = U\nint n = U\n",
           _H + "complex z = 1+2j\nfloat x = z*2\n",
           _H + "float array A =\n    1.0, 2.0\nstr s = A\nbool b = A\n"]
# scripts whose outcome passes through NumPy's warning / floating-point error machinery (a computed complex value in a real
# loop, division by a zero array element, overflow, function arguments outside the real domain): interpreter-wide settings
# left behind by an earlier load (warning filters, np.seterr) would change what they do
_SENSITIVE = [_H + "for float v in 2*1j, 1.0\n    G(v) | 0\n",
              _H + "complex array U =\n    1.0+2j, 2.0\nfor float v in U[0], 1.0\n    G(v) | 0\n",
              _H + "complex array U =\n    1.0+2j, 2.0\nfor int v in U[1], U[0]\n    G(v) | 0\n",
              _H + "float array A =\n    0.0, 2.0\nfloat x = 1.0/A[0]\nG(x, A[1]/A[0]) | 0\n",
              _H + "G(log(0), sqrt(-1), arcsin(2)) | 0\n",
              _H + "float array A =\n    1e300, 2.0\nG(A[0]*A[0], exp(1000)) | 0\n",
              _H + "int array A =\n    9223372036854775807, 2\nG(A[0]+A[1]) | 0\n",
              _H + "G(q0/0.0 + 1) | 0\nG(1e308*10*{a}) | 1\n"]


@st.composite
def group(draw):
    """One step, or the scenario 'load S; modify the program it returned; load S again'."""
    if draw(st.integers(0, 6)) == 0:
        first = {"kind": "loads", "text": draw(st.sampled_from(_CORNER + _SENSITIVE)), "role": "conversion-corner"}
        between = draw(st.lists(step(), max_size=1))
        return [first] + between + [{"kind": "loads", "text": draw(st.sampled_from(_SENSITIVE)), "role": "settings-sensitive"}]
    if draw(st.integers(0, 7)) == 0:
        # the same script once as a tdm program and once with another program type (p-arrays by name vs by value)
        sc = draw(S.script(_cfg(tdm=True)))
        for it in sc.items:
            pass
        t1 = render.render(sc)
        sc2 = A.Script(sc.name, sc.version, sc.target, A.Meta("other", sc.ptype.args), [], sc.items)
        t2 = render.render(sc2)
        pair = [{"kind": "loads", "text": t1, "role": "valid-tdm"}, {"kind": "loads", "text": t2, "role": "valid"}]
        if draw(st.booleans()):
            pair.reverse()
        return pair
    if draw(st.integers(0, 5)) == 0:
        # a load that fails while names are defined (a loop variable, declarations), then a script using such a name undefined
        f = draw(failing())
        cands = sorted((_declared_in(f) & set(POOL)) or set(POOL))
        v = draw(st.sampled_from(cands))
        between = draw(st.lists(step(), max_size=2))
        return [{"kind": "loads", "text": f, "role": "failing"}] + between + [{"kind": "loads", "text": draw(probe_text(force=v)), "role": "probe"}]
    s1 = draw(step())
    if s1["kind"] != "mutate" and draw(st.integers(0, 3)) == 0:
        mut = {"kind": "mutate", "target": -1, "how": draw(st.sampled_from(list(range(9)) + [9, 10] * 3)), "role": "mutate"}
        return [s1, mut, dict(s1)]
    return [s1]


@st.composite
def case(draw, tier):
    groups = draw(st.lists(group(), min_size=2, max_size=20 if tier != "quick" else 8))
    return {"steps": [s for g in groups for s in g][:40 if tier != "quick" else 16]}


def strategy(tier):
    return case(tier)


def dump_case(c):
    return c


def load_case(j):
    return j


def _mentions(text, names):
    toks = [t.text for t in ref.ref_tokens(text)]
    return any(n in toks for n in names)


def _declared_in(text):
    toks = ref.ref_tokens(text)
    out = set()
    for i, t in enumerate(toks):
        if t.name.startswith("TYPE_") and i + 1 < len(toks) and toks[i + 1].name == "NAME":
            out.add(toks[i + 1].text)
        if t.name == "TYPE_ARRAY" and i + 1 < len(toks) and toks[i + 1].name == "NAME":
            out.add(toks[i + 1].text)
        if t.name == "FOR" and i + 2 < len(toks):
            out.add(toks[i + 2].text)
    return out


def check(c):
    steps = [{k: v for k, v in s.items() if k != "role"} for s in c["steps"]]
    roles = [s.get("role", "?") for s in c["steps"]]
    res = ask(steps)
    out = Outcome(key=json.dumps(steps, sort_keys=True))
    out.classes = sorted(set("step:" + r for r in roles))
    # non-triviality: a failed load followed by a script mentioning a name it defined
    left = set()
    nontrivial = False
    for s, o in zip(steps, res["outcomes"]):
        text = s.get("text") or "\n".join(s.get("files", {}).values())
        if s["kind"] != "mutate":
            if left and _mentions(text, left):
                nontrivial = True
            if "exc" in o:
                left |= _declared_in(text)
    out.nontrivial = nontrivial
    out.sample = {"steps": [s.get("text") or s.get("files") or {"mutate": s.get("target")} for s in steps][:6],
                  "outcomes": [("ok" if "ok" in o else o.get("exc", "mutate")) for o in res["outcomes"]][:6]}
    for n, (s, o) in enumerate(zip(steps, res["outcomes"])):
        if s["kind"] == "mutate":
            continue
        alone = pristine(s)
        if o != alone:
            kind = "%s-vs-%s" % ("program" if "ok" in o else o.get("exc"), "program" if "ok" in alone else alone.get("exc"))
            prev = [r for r in roles[:n]]
            out.violations.append(Violation("history-dependent|%s|%s" % (roles[n], kind),
                                            "step %d (%s) gives a different outcome after the history %r than alone in a pristine process\n"
                                            "in history: %s\nalone:      %s\nstep: %s\nearlier steps: %s" % (
                                                n, roles[n], prev, _short(o), _short(alone), json.dumps(s)[:1500],
                                                json.dumps(steps[:n])[:3000])))
            return out
    for sh in res["shared"]:
        st_ = steps[sh["step"]]
        out.violations.append(Violation("shared-state|by-%s" % roles[sh["step"]],
                                        "program %d returned earlier changed at step %d (%s)\nbefore: %s\nafter:  %s\nsteps: %s" % (
                                            sh["program"], sh["step"], roles[sh["step"]], sh["before"], sh["after"], json.dumps(steps)[:3000])))
        break
    return out


def _short(o):
    if "ok" in o:
        return "program " + json.dumps(o["ok"])[:700]
    return "%s: %s" % (o.get("exc"), o.get("msg"))

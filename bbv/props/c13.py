"""C13 -- read-only operations leave programs unchanged; instances are independent (history property)."""
import copy

import numpy as np
from hypothesis import strategies as st

from ..model import ast as A, strategies as S, render
from ..run import Outcome, Violation, exc_bucket, HarnessError
from .. import canon
from . import common as K

ID = "C13"
RULE = ("A history = 1..3 generated scripts (plain programs with argument-less operations, register arguments, arrays, options; and "
        "templates) loaded into a pool, followed by up to 15 (thorough 40) generated steps: dumps(i); call template i with generated "
        "values (the instance joins the pool); to_DiGraph(i); match_template(i, j) (result ignored, errors allowed); read every public "
        "attribute of i; mutate instance j (append to args, write into array arguments, keyword lists, variables, target/type options, "
        "modes, operations). Invariant after every step: for every pool member, dumps() text and canonical content equal their values "
        "recorded at creation (or after the machine's own last mutation of that member). Non-trivial = history with a graph conversion "
        "or match AND an instance mutation, on a pool containing an argument-less operation. Distinct = SHA-1 of scripts + steps. "
        "Shrinking works on the step list as one value.")
RULE += (" One pool in six starts with a template/program pair written with keyword arguments (the same operations and modes; the "
         "program gives the template's keywords, fewer, more or none) that is matched early and often.")
ASSUMPTIONS = ["canonical snapshot (bbv/canon.py) covers name, version, target, type, options, parameters, modes, operations, variables"]
BUDGET = {"quick": (320, 4), "thorough": (6400, 16)}


@st.composite
def step(draw):
    k = draw(st.sampled_from(["dumps", "call", "call", "graph", "graph", "match", "match", "match01", "read", "mutate", "mutate"]))
    return {"k": k, "i": draw(st.integers(0, 7)), "j": draw(st.integers(0, 7)), "how": draw(st.sampled_from([0, 1, 1, 2, 3, 3, 3, 4, 5, 6, 7, 8, 9, 10])),
            "vals": draw(st.lists(st.floats(min_value=-3, max_value=3, allow_nan=False).filter(lambda x: abs(x) > 0.01), min_size=1, max_size=5))}


@st.composite
def tdm_pair(draw):
    """(template text, program text): a tdm template with bare {x} arguments and a tdm program with the same operations
    whose arguments are p-arrays -- match_template succeeds on such a pair and returns the arrays."""
    n = draw(st.integers(1, 4))
    t_lines, p_lines, decls = [], [], []
    k = 0
    for i in range(n):
        op = draw(st.sampled_from(["Sgate", "Rgate", "BSgate", "MeasureFock"]))
        modes = draw(st.lists(st.integers(0, 3), min_size=1, max_size=2, unique=True))
        ta, pa = [], []
        for _ in range(draw(st.integers(0, 2))):
            if draw(st.booleans()):
                ta.append("{x%d}" % k)
                pa.append("p%d" % k)
                decls.append("float array p%d =\n    %s" % (k, ", ".join(str(draw(st.sampled_from([0.1, 0.25, 1.5, 2.0]))) for _ in range(2))))
                k += 1
            else:
                v = str(draw(st.sampled_from([0.0, 0.5, 1.25])))
                ta.append(v)
                pa.append(v)
        m = "[%s]" % ", ".join(map(str, modes))
        t_lines.append("%s(%s) | %s" % (op, ", ".join(ta), m))
        p_lines.append("%s(%s) | %s" % (op, ", ".join(pa), m))
    if k == 0:
        t_lines.append("Rgate({x0}) | 0")
        p_lines.append("Rgate(p0) | 0")
        decls.append("float array p0 =\n    0.5, 0.75")
    head = "name tdmpair\nversion 1.0\ntarget TD2 (shots=1)\ntype tdm (temporal_modes=2)\n"
    return head + "\n".join(t_lines) + "\n", head + "\n".join(decls) + "\n" + "\n".join(p_lines) + "\n"


@st.composite
def kw_pair(draw):
    """(template text, program text): the same operations on the same modes; the template's operations carry keyword arguments
    (numbers or {y}), the program's operations give the same keywords, fewer, more or none at all."""
    n = draw(st.integers(1, 4))
    t_lines, p_lines = [], []
    k = 0
    for i in range(n):
        op = draw(st.sampled_from(["Sgate", "Rgate", "BSgate", "MeasureHomodyne"]))
        modes = draw(st.lists(st.integers(0, 3), min_size=1, max_size=2, unique=True))
        ta, pa = [], []
        for _ in range(draw(st.integers(0, 2))):
            v = str(draw(st.sampled_from([0.0, 0.5, 1.25])))
            if draw(st.booleans()):
                ta.append("{x%d}" % k)
                k += 1
            else:
                ta.append(v)
            pa.append(v)
        for key in draw(st.lists(st.sampled_from(["phi", "select", "r", "cutoff"]), max_size=3, unique=True)):
            v = str(draw(st.sampled_from([0.1, 2, 0.75])))
            where = draw(st.sampled_from(["both", "both", "template", "template", "program"]))
            if where in ("both", "template"):
                ta.append("%s=%s" % (key, v if draw(st.booleans()) else "{y%d}" % i))
            if where in ("both", "program"):
                pa.append("%s=%s" % (key, v))
        m = "[%s]" % ", ".join(map(str, modes))
        t_lines.append("%s(%s) | %s" % (op, ", ".join(ta), m) if ta else "%s | %s" % (op, m))
        p_lines.append("%s(%s) | %s" % (op, ", ".join(pa), m) if pa else "%s | %s" % (op, m))
    head = "name kwpair\nversion 1.0\n"
    return head + "\n".join(t_lines) + "\n", head + "\n".join(p_lines) + "\n"


@st.composite
def case(draw, tier):
    big = tier != "quick"
    scripts = []
    sel = draw(st.integers(0, 5))
    if sel in (0, 1):
        t, p = draw(tdm_pair())
        scripts.extend([{"text": t}, {"text": p}])
    elif sel == 2:
        t, p = draw(kw_pair())
        scripts.extend([{"text": t}, {"text": p}])
    scripts.append(draw(S.script(S.Cfg(max_items=6, depth=1, params=True, sym_vars=draw(st.booleans()), regs=draw(st.booleans()),
                                       array_weight=2, whole_array_odds=1))))
    for _ in range(draw(st.integers(0, 2))):
        scripts.append(draw(S.script(S.Cfg(max_items=6, depth=1, regs=draw(st.booleans()), params=draw(st.booleans())))))
    steps = draw(st.lists(step(), min_size=4, max_size=40 if big else 15))
    # most histories start by making an instance of the first template, so that later mutate steps have a target
    if draw(st.integers(0, 3)) > 0:
        first = draw(step())
        first["k"] = "call"
        tpl = 0 if not (isinstance(scripts[0], dict)) else len([x for x in scripts if isinstance(x, dict)])
        first["i"] = tpl
        steps.insert(0, first)
        if draw(st.integers(0, 2)) == 0:
            # two instances from the same caller values, then in-place edits of the variables of one of them
            second = dict(first)
            first["how"], second["how"] = 0, 2
            edit = {"k": "mutate", "i": 0, "j": draw(st.integers(0, 1)), "how": 3, "vals": [0.5]}
            steps[1:1] = [second, edit]
    return {"scripts": scripts, "steps": steps}


def strategy(tier):
    return case(tier)


dump_case, load_case = K.dump_case, K.load_case


def _state(p):
    """(dumps text, content); the content is taken BEFORE serialising and compared with the content afterwards, so that a
    serialiser that rewrites the program is seen at the first dumps already (marker 'changed-by-dumps')."""
    try:
        before = canon.snapshot(p)
    except Exception as ex:
        before = "snapshot-error:%s" % type(ex).__name__
    t, e = K.safe_dumps(p)
    try:
        snap = canon.snapshot(p)
    except Exception as ex:
        snap = "snapshot-error:%s" % type(ex).__name__
    text = t if e is None else "dumps-error:%s" % type(e).__name__
    if snap != before:
        text = "changed-by-dumps:" + text
    return (text, snap)


def _mutate(p, how, vals):
    """Machine-made modification of a returned instance."""
    ops = p.operations
    if how == 0 and ops:
        ops[0].setdefault("args", []).append(vals[0])
        ops[0].setdefault("kwargs", {})
        return "append-arg"
    if how == 1:
        for o in ops:
            for a in o.get("args", []):
                if isinstance(a, np.ndarray) and a.size:
                    a.flat[0] = 7
                    return "write-array-arg"
        p.variables["machine_added"] = vals[0]
        return "add-variable"
    if how == 2:
        for o in ops:
            for k, v in (o.get("kwargs") or {}).items():
                if isinstance(v, list):
                    v.append(vals[0])
                    return "append-kwarg-list"
        if ops:
            ops[-1].setdefault("args", [])
            ops[-1].setdefault("kwargs", {})["machine_kw"] = [vals[0]]
            return "add-kwarg"
    if how == 3:
        hit = False
        for k, v in p.variables.items():
            if isinstance(v, np.ndarray) and v.size and not canon.contains_sympy(v):
                v.flat[0] = 3          # every numeric array variable of this instance is written
                hit = True
        if hit:
            return "write-variable-arrays"
        p.variables["machine_added2"] = 1
        return "add-variable"
    if how == 4:
        p.target["options"]["machine_opt"] = 5
        if p.target["name"] is None:
            p.target["name"] = "machinedev"
        return "target-option"
    if how == 5:
        p.modes.add(99)
        return "modes-add"
    if how == 6 and ops:
        ops.pop()
        return "pop-operation"
    if how == 7:
        p.programtype["options"]["machine_topt"] = True
        if p.programtype["name"] is None:
            p.programtype["name"] = "machinetype"
        return "type-option"
    if how in (9, 10):
        # edit a register transform in place (its attributes are plain Python objects)
        for o in ops:
            for a in list(o.get("args", [])) + list((o.get("kwargs") or {}).values()):
                if type(a).__name__ == "RegRefTransform":
                    if how == 9:
                        a.regrefs.append(99)
                        return "transform-regrefs-append"
                    a.func_str = "edited"
                    return "transform-func_str"
    ops.append({"op": "MachineOp", "modes": [0]})
    return "append-operation"


def check(c):
    from blackbird.utils import to_DiGraph, match_template
    texts = []
    for sc in c["scripts"]:
        if isinstance(sc, dict) and "text" in sc:
            texts.append(sc["text"])
            continue
        try:
            texts.append(render.render(sc))
        except render.RenderError as e:
            raise HarnessError(str(e))
    pool = []          # [program, recorded state, origin]
    for t in texts:
        p, e = K.safe_loads(t)
        if e is not None:
            return Outcome(discard="load-failed:" + type(e).__name__)
        pool.append([p, _state(p), "loaded"])
        if pool[-1][1][0].startswith("changed-by-dumps:"):
            return _dumps_changed(len(pool) - 1, "loaded", texts)
    key = "\n=====\n".join(texts) + repr(c["steps"])
    out = Outcome(key=key)
    argless = any("args" not in o for p, _, _ in pool for o in p.operations)
    did = set()
    trace = []
    shared_arrays = {}
    for n, s in enumerate(c["steps"]):
        i = s["i"] % len(pool)
        j = s["j"] % len(pool)
        k = s["k"]
        p = pool[i][0]
        note = k
        try:
            if k == "dumps":
                K.safe_dumps(p)
            elif k == "call":
                if p.is_template():
                    names = sorted(p.parameters)
                    vals = {nm: s["vals"][x % len(s["vals"])] for x, nm in enumerate(names)}
                    # array-valued parameters (names base_i_j covering a full r x c block) get ONE ndarray per template
                    # and base name for the whole history: every instance is made from the very same caller array
                    import re as _re
                    groups = {}
                    for nm in names:
                        m_ = _re.match(r"^(.*)_(\d+)_(\d+)$", nm)
                        if m_:
                            groups.setdefault(m_.group(1), set()).add((int(m_.group(2)), int(m_.group(3))))
                    for base, idx in groups.items():
                        r_, c_ = max(i_ for i_, _ in idx) + 1, max(j_ for _, j_ in idx) + 1
                        if idx == {(a_, b_) for a_ in range(r_) for b_ in range(c_)} and base not in names and s["how"] % 2 == 0:
                            key_ = (i, base)
                            if key_ not in shared_arrays:
                                shared_arrays[key_] = np.arange(1, r_ * c_ + 1, dtype=float).reshape(r_, c_) / 4
                            for a_ in range(r_):
                                for b_ in range(c_):
                                    vals.pop("%s_%d_%d" % (base, a_, b_))
                            vals[base] = shared_arrays[key_]
                    inst = p(**vals)
                    if len(pool) < 8:
                        pool.append([inst, _state(inst), "instance-of-%d" % i])
                        if pool[-1][1][0].startswith("changed-by-dumps:"):
                            return _dumps_changed(len(pool) - 1, "instance-of-%d" % i, texts)
                    note = "call(%d)" % i
                else:
                    note = "call-skipped"
            elif k == "graph":
                to_DiGraph(p)
                did.add("graph")
            elif k == "match01" and len(pool) > 1:
                try:
                    match_template(pool[0][0], pool[1][0])
                except Exception:
                    pass
                did.add("match")
                note = "match(0,1)"
            elif k == "match":
                try:
                    match_template(p, pool[j][0])
                except Exception:
                    pass
                did.add("match")
                note = "match(%d,%d)" % (i, j)
            elif k == "read":
                _ = (p.name, p.version, p.modes, p.target, p.programtype, p.operations, p.parameters, p.variables, p.is_template(), len(p))
            elif k == "mutate":
                cands = [x for x in range(len(pool)) if pool[x][2].startswith("instance")]
                if cands:
                    x = cands[s["j"] % len(cands)]
                    how = _mutate(pool[x][0], s["how"], s["vals"])
                    pool[x][1] = _state(pool[x][0])
                    did.add("mutate")
                    note = "mutate(%d,%s)" % (x, how)
                else:
                    note = "mutate-skipped"
        except Exception as e:
            # operations on valid programs are not expected to raise, but that is not C13's claim
            note += "!%s" % type(e).__name__
        trace.append(note)
        for x, (q, rec, origin) in enumerate(pool):
            now = _state(q)
            if now != rec:
                what = "dumps-text" if now[0] != rec[0] else "content"
                out.violations.append(Violation("changed|%s|by-%s|%s" % (what, k, "other-member" if (k in ("mutate", "call") or x != i) else "same-member"),
                                                "after step %d (%s) pool member %d (%s) changed\nbefore: %s\nafter:  %s\nhistory: %r\nscripts:\n%s" % (
                                                    n, note, x, origin, _short(rec), _short(now), trace, "\n=====\n".join(texts))))
                out.classes = sorted(did)
                return out
    out.classes = sorted(did) + (["argument-less-operation"] if argless else []) + ["steps:%d" % (len(c["steps"]) // 5 * 5)]
    out.nontrivial = bool(did & {"graph", "match"}) and "mutate" in did and argless
    out.sample = {"scripts": texts, "steps": trace}
    return out


def _dumps_changed(x, origin, texts):
    out = Outcome(key="\n=====\n".join(texts) + "|dumps-changes|%d" % x)
    out.violations.append(Violation("changed|content|by-dumps|same-member",
                                    "serialising pool member %d (%s) changed its content (content before dumps() differs from the content after)\nscripts:\n%s" % (
                                        x, origin, "\n=====\n".join(texts))))
    return out


def _short(state):
    t, s = state
    return "dumps=%r content=%s" % (t, str(s)[:600])

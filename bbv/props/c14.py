"""C14 -- shipped lexers and parsers recognise exactly the language of blackbird.g4."""
import ast as pyast
import hashlib
import multiprocessing
import os
import re

from hypothesis import strategies as st

from ..g4 import sentences as G
from ..model import strategies as S, render
from ..run import Outcome, Violation, exc_bucket, HarnessError, sha
from .. import ref
from . import common as K

ID = "C14"
RULE = ("Part 1 (finite, complete): the serialised automata are extracted from six places (Python serializedATN() of lexer and "
        "parser, serializedATNSegment0[] of both C++ files, the atn: sections of both copies of blackbird.interp and "
        "blackbirdLexer.interp) and compared word by word; .tokens files, literal/symbolic/rule name tables (Python attributes, "
        "C++ vectors, .interp headers) are compared with the token and rule order derived from blackbird.g4; listener/visitor "
        "method sets must be {enter,exit}/{visit} x (rules + alternative labels). Part 2 (generated): lexer differential -- "
        "strings built from lexeme samples of every token rule with and without separators, random strings over the grammar's "
        "alphabet, and mutated rendered scripts: shipped blackbirdLexer tokens (type, text, start, stop, line, column) must equal "
        "the reference lexer's (longest match, earliest rule); parser differential -- token-type sequences fed through "
        "ListTokenSource: random derivations, single-token delete/insert/substitute/swap mutants, and all sentences of the "
        "'program' rule up to a length bound after a fixed metadata prefix: shipped parser verdict (any reported syntax error) "
        "must equal the Earley verdict. Non-trivial = lexer strings with >=3 tokens and a longest-match tie, parser sequences of "
        ">=12 tokens or rejected mutants. Distinct = SHA-1 of the string / token sequence."
        " Lexer rules with '-> channel(HIDDEN)' are modelled (hidden-channel tokens are part of the compared token"
        " sequence); the token and rule enums of the C++ headers and the Python RULE_ constants are compared with the"
        " grammar's numbering; the sequence of state numbers, matched tokens, prediction decisions and alternative"
        " numbers of blackbirdParser.cpp must equal that of blackbirdParser.py.")
ASSUMPTIONS = ["the C++ lexer/parser cannot be executed here (no ANTLR C++ runtime): for the C++ target the claim is the complete "
               "artefact identity of part 1 (its automaton is word for word the one exercised through the Python target)",
               "reference lexer / Earley recogniser implement ANTLR's documented lexer semantics and CFG language"]
BUDGET = {"quick": (8000, 4), "thorough": (640000, 16)}

PY = os.path.join(ref.REPO, "blackbird_python", "blackbird")
CPP = os.path.join(ref.REPO, "blackbird_cpp")

# ------------------------------------------------------------------ generated part


@st.composite
def lexer_string(draw):
    k = draw(st.integers(0, 9))
    voc = _vocab()
    if k <= 4:
        n = draw(st.integers(1, 14))
        parts = []
        for _ in range(n):
            parts.append(draw(st.sampled_from(voc)))
            parts.append(draw(st.sampled_from(["", "", " ", " ", "  ", "\t", "    ", "\n", "\r", "\r\n", ",", "+", "-", "j", "e", ".", "#"])))
        return "".join(parts)
    if k <= 6:
        return draw(st.text(alphabet=st.one_of(st.sampled_from(list("0123456789eEjJ+-.,qpTFMauresin \t\r\n\"#_()[]{}|:=*/")),
                                                st.characters(min_codepoint=32, max_codepoint=126),
                                                st.sampled_from(["é", "λ", " ", "\U0001F600", "\x0b", "\x0c", "\x00"])), max_size=30))
    sc = draw(S.script(S.Cfg(max_items=4, depth=1, params=True, regs=True)))
    text = render.render(sc, K.to_layout(draw(K.layout_light())))
    # character-level mutation
    if text and draw(st.booleans()):
        i = draw(st.integers(0, len(text) - 1))
        text = text[:i] + draw(st.sampled_from(["", " ", "\r", "j", "1", ",", "q", "    ", "\t", "e", "-"])) + text[i + draw(st.integers(0, 1)):]
    return text


_V = None


def _vocab():
    global _V
    if _V is None:
        _V = [s for _, s in G.vocabulary()]
    return _V


@st.composite
def token_sequence(draw):
    names = draw(G.sentence(max_depth=draw(st.integers(3, 12))))
    kind = "derivation"
    if names and draw(st.integers(0, 3)) > 0:
        g = ref.grammar()
        op = draw(st.sampled_from(["delete", "insert", "substitute", "swap", "delete2", "repeat2"]))
        i = draw(st.integers(0, len(names) - 1))
        if op == "delete2":
            names = names[:i] + names[i + 2:]
        elif op == "repeat2":
            names = names[:i + 2] + names[i:i + 2] + names[i + 2:]
        elif op == "delete":
            names = names[:i] + names[i + 1:]
        elif op == "insert":
            names = names[:i] + [draw(st.sampled_from(g.token_names))] + names[i:]
        elif op == "substitute":
            names = names[:i] + [draw(st.sampled_from(g.token_names))] + names[i + 1:]
        elif i + 1 < len(names):
            names = names[:i] + [names[i + 1], names[i]] + names[i + 2:]
        kind = "mutant:" + op
    return kind, names


@st.composite
def case(draw):
    if draw(st.integers(0, 2)) > 0:
        return {"part": "lexer", "text": draw(lexer_string())}
    kind, names = draw(token_sequence())
    return {"part": "parser", "kind": kind, "names": names}


def strategy(tier):
    return case()


def dump_case(c):
    return c


def load_case(j):
    return j


def shipped_parser_verdict(names):
    """True iff the shipped parser reports no syntax error for the token-type sequence."""
    import antlr4
    from antlr4.Token import CommonToken
    from antlr4.ListTokenSource import ListTokenSource
    from antlr4.error.ErrorListener import ErrorListener
    from blackbird.blackbirdParser import blackbirdParser
    g = ref.grammar()
    toks = []
    for i, n in enumerate(names + ["EOF"]):
        t = CommonToken(type=-1 if n == "EOF" else g.token_type[n])
        t.text = "<%s>" % n
        t.tokenIndex = i
        t.line = 1
        t.column = i
        toks.append(t)

    class Rec(ErrorListener):
        def __init__(self):
            self.errors = []

        def syntaxError(self, recognizer, offendingSymbol, line, column, msg, e):
            self.errors.append((offendingSymbol.tokenIndex if offendingSymbol is not None else -1, msg))

    stream = antlr4.CommonTokenStream(ListTokenSource(toks))
    parser = blackbirdParser(stream)
    parser.removeErrorListeners()
    rec = Rec()
    parser.addErrorListener(rec)
    parser.start()
    return (not rec.errors), rec.errors[:1]


def check(c):
    if c["part"] == "lexer":
        text = c["text"]
        want, ties = ref.lexer().tokens(text, with_ties=True, hidden=True)
        want_t = [(t.type, t.text if t.type != -1 else "<EOF>", t.start, t.stop, t.line, t.col) + ((1,) if t.name.endswith("@hidden") else ())
                  for t in want]
        out = Outcome(key="L:" + text, classes=["lexer"], sample={"part": "lexer", "text": text, "tokens": [t.name for t in want]})
        out.nontrivial = len(want) >= 4 and ties > 0
        try:
            got = ref.shipped_tokens(text, hidden=True)
        except RecursionError:
            raise
        except Exception as e:
            out.violations.append(Violation("lexer|" + exc_bucket("lex", e), "shipped lexer raised %s: %s on %r" % (type(e).__name__, e, text)))
            return out
        if got != want_t:
            i = next((j for j, (a, b) in enumerate(zip(got, want_t)) if a != b), min(len(got), len(want_t)))
            g = ref.grammar()

            def nm(t):
                return "EOF" if t[0] == -1 else (g.token_names[t[0] - 1] if 0 < t[0] <= len(g.token_names) else str(t[0])) + ("@hidden" if len(t) > 6 else "")
            a = got[i] if i < len(got) else None
            b = want_t[i] if i < len(want_t) else None
            cls = "%s-vs-%s" % (nm(a) if a else "none", nm(b) if b else "none")
            if a and b and a[0] == b[0] and a[1] == b[1]:
                cls = "position"
            out.violations.append(Violation("lexer|token-mismatch|" + cls,
                                            "token %d: shipped lexer %r, grammar prescribes %r\ntext: %r" % (i, a, b, text)))
        return out
    names = c["names"]
    ok, k = ref.cfg().recognise(list(names) + ["EOF"])
    out = Outcome(key="P:" + " ".join(names), classes=["parser", c["kind"], "accept" if ok else "reject"],
                  sample={"part": "parser", "tokens": names, "grammar_verdict": ok})
    out.nontrivial = len(names) >= 12 or (not ok and c["kind"].startswith("mutant"))
    try:
        got, errs = shipped_parser_verdict(names)
    except RecursionError:
        raise
    except Exception as e:
        out.violations.append(Violation("parser|" + exc_bucket("parse", e), "shipped parser raised %s: %s on %r" % (type(e).__name__, e, names)))
        return out
    if got != ok:
        out.violations.append(Violation("parser|verdict|%s" % ("accepts-non-sentence" if got else "rejects-sentence"),
                                        "shipped parser %s, grammar %s (first non-viable token index %r; parser error %r)\ntokens: %s" % (
                                            "accepts" if got else "rejects", "accepts" if ok else "rejects", k, errs, " ".join(names))))
    elif not ok and errs and errs[0][0] >= 0 and errs[0][0] < k:
        out.violations.append(Violation("parser|error-before-first-bad-token",
                                        "parser reported token %d, first non-viable token is %d\ntokens: %s" % (errs[0][0], k, " ".join(names))))
    return out


# ------------------------------------------------------------------ part 1: artefacts (complete)

def _read(path):
    with open(path, encoding="utf-8") as f:
        return f.read()


def atn_from_python(modname, clsname):
    import importlib
    mod = importlib.import_module("blackbird." + modname)
    s = mod.serializedATN()
    return [ord(ch) for ch in s]


def atn_from_cpp(path):
    txt = _read(path)
    segs = re.findall(r"serializedATNSegment\d+\[\]\s*=\s*\{(.*?)\};", txt, re.S)
    if not segs:
        raise HarnessError("no serializedATNSegment in %s" % path)
    out = []
    for s in segs:
        out.extend(int(x, 16) for x in re.findall(r"0x[0-9a-fA-F]+", s))
    return out


def interp_sections(path):
    txt = _read(path)
    sections = {}
    cur = None
    for line in txt.split("\n"):
        if line.endswith(":") and line[:-1] in ("token literal names", "token symbolic names", "rule names", "channel names", "mode names", "atn"):
            cur = line[:-1]
            sections[cur] = []
        elif cur is not None:
            sections[cur].append(line)
    for k in sections:
        while sections[k] and sections[k][-1] == "":
            sections[k].pop()
    atn = pyast.literal_eval("".join(sections.get("atn", ["[]"])))
    return sections, atn


def cpp_vector(path, name):
    txt = _read(path)
    m = re.search(r"std::vector<std::string>\s+\w+::%s\s*=\s*\{(.*?)\};" % name, txt, re.S)
    if not m:
        raise HarnessError("vector %s not found in %s" % (name, path))
    return [re.sub(r"\\(.)", r"\1", x) for x in re.findall(r'"((?:[^"\\]|\\.)*)"', m.group(1))]


def tokens_file(path):
    out = []
    for line in _read(path).split("\n"):
        if line:
            k, v = line.rsplit("=", 1)
            out.append((k, int(v)))
    return out


def expected_tables():
    g = ref.grammar()
    sym = [None] + list(g.token_names)
    lit = [None] + [("'%s'" % g.literal[n]) if n in g.literal else None for n in g.token_names]
    return g, sym, lit


def artefact_findings():
    """List of (bucket, detail) plus number of compared items."""
    g, sym, lit = expected_tables()
    finds = []
    compared = 0

    def diff(label, a, b, what):
        nonlocal compared
        compared += max(len(a), len(b))
        if a != b:
            i = next((j for j, (x, y) in enumerate(zip(a, b)) if x != y), min(len(a), len(b)))
            finds.append(("artefact|%s" % label, "%s differ at index %d: %r vs %r (lengths %d, %d)" % (
                what, i, a[i] if i < len(a) else None, b[i] if i < len(b) else None, len(a), len(b))))

    # --- automata
    py_lex = atn_from_python("blackbirdLexer", "blackbirdLexer")
    py_par = atn_from_python("blackbirdParser", "blackbirdParser")
    cpp_lex = atn_from_cpp(os.path.join(CPP, "blackbirdLexer.cpp"))
    cpp_par = atn_from_cpp(os.path.join(CPP, "blackbirdParser.cpp"))
    isec = {}
    for d, tag in ((PY, "python"), (CPP, "cpp")):
        for fn in ("blackbird.interp", "blackbirdLexer.interp"):
            isec[(tag, fn)] = interp_sections(os.path.join(d, fn))
    diff("lexer-atn:python-vs-cpp", py_lex, cpp_lex, "lexer automata of blackbirdLexer.py and blackbirdLexer.cpp")
    diff("parser-atn:python-vs-cpp", py_par, cpp_par, "parser automata of blackbirdParser.py and blackbirdParser.cpp")
    for tag in ("python", "cpp"):
        diff("lexer-atn:python-vs-%s-interp" % tag, py_lex, isec[(tag, "blackbirdLexer.interp")][1],
             "lexer automaton of blackbirdLexer.py and %s blackbirdLexer.interp" % tag)
        diff("parser-atn:python-vs-%s-interp" % tag, py_par, isec[(tag, "blackbird.interp")][1],
             "parser automaton of blackbirdParser.py and %s blackbird.interp" % tag)
    # --- name tables vs grammar
    from blackbird.blackbirdLexer import blackbirdLexer
    from blackbird.blackbirdParser import blackbirdParser
    lexer_rules = [n for n, _, frag, _ in g.lexer_rules]

    def norm_names(lst, strip_invalid=True):
        return [None if x in ("<INVALID>", "null", "") else x for x in lst]

    diff("python-parser-symbolicNames", norm_names(blackbirdParser.symbolicNames), sym, "blackbirdParser.symbolicNames and grammar token order")
    diff("python-lexer-symbolicNames", norm_names(blackbirdLexer.symbolicNames), sym, "blackbirdLexer.symbolicNames and grammar token order")
    diff("python-parser-literalNames", _pad(norm_names(blackbirdParser.literalNames), len(lit)), lit, "blackbirdParser.literalNames and grammar literals")
    # the Python lexer template lists the literals compactly (no placeholders for non-literal tokens)
    diff("python-lexer-literalNames", [x for x in norm_names(blackbirdLexer.literalNames) if x], [x for x in lit if x],
         "blackbirdLexer.literalNames (compact list) and grammar literals")
    diff("python-parser-ruleNames", list(blackbirdParser.ruleNames), list(g.rule_names), "blackbirdParser.ruleNames and grammar rule order")
    diff("python-lexer-ruleNames", list(blackbirdLexer.ruleNames), lexer_rules, "blackbirdLexer.ruleNames and grammar lexer rule order")
    for i, n in enumerate(g.token_names):
        compared += 1
        if getattr(blackbirdParser, n, None) != i + 1 or getattr(blackbirdLexer, n, None) != i + 1:
            finds.append(("artefact|python-token-constants", "token constant %s is %r/%r, grammar order gives %d" % (
                n, getattr(blackbirdParser, n, None), getattr(blackbirdLexer, n, None), i + 1)))
    for i, n in enumerate(g.rule_names):
        compared += 1
        if getattr(blackbirdParser, "RULE_" + n, None) != i:
            finds.append(("artefact|python-rule-constants", "blackbirdParser.RULE_%s is %r, grammar order gives %d" % (
                n, getattr(blackbirdParser, "RULE_" + n, None), i)))
    # the enums of the generated C++ headers: token constants (both headers) and rule constants
    for fn in ("blackbirdLexer.h", "blackbirdParser.h"):
        enums = [dict((k, int(v)) for k, v in re.findall(r"\b([A-Za-z_]\w*)\s*=\s*(\d+)", body))
                 for body in re.findall(r"\benum\s*\{([^}]*)\}", _read(os.path.join(CPP, fn)))]
        tok_enum = next((e for e in enums if "PLUS" in e or g.token_names[0] in e), None)
        compared += 1
        if tok_enum != {n: i + 1 for i, n in enumerate(g.token_names)}:
            want_ = {n: i + 1 for i, n in enumerate(g.token_names)}
            bad_ = sorted(k for k in set(want_) | set(tok_enum or {}) if want_.get(k) != (tok_enum or {}).get(k))
            finds.append(("artefact|cpp-%s-token-enum" % fn, "token enum of %s differs from the grammar's token numbering at %r: header %r, grammar %r" % (
                fn, bad_[:6], {k: (tok_enum or {}).get(k) for k in bad_[:6]}, {k: want_.get(k) for k in bad_[:6]})))
        if fn == "blackbirdParser.h":
            rule_enum = next((e for e in enums if any(k.startswith("Rule") for k in e)), None)
            want_ = {"Rule" + n[0].upper() + n[1:]: i for i, n in enumerate(g.rule_names)}
            compared += 1
            if rule_enum != want_:
                bad_ = sorted(k for k in set(want_) | set(rule_enum or {}) if want_.get(k) != (rule_enum or {}).get(k))
                finds.append(("artefact|cpp-rule-enum", "rule enum of blackbirdParser.h differs from the grammar's rule order at %r" % (bad_[:6],)))
    # the generated recursive-descent code of the two parsers walks the same automaton: the sequence of state numbers, matched
    # tokens, prediction decisions and alternative numbers in the C++ source equals that of the Python source (whose language
    # is compared with the grammar dynamically)
    def skeleton(txt, cpp):
        pats = ([("state", r"setState\((\d+)\)"), ("match", r"\bmatch\(blackbirdParser::(\w+)\)"), ("predict", r"adaptivePredict\(_input, (\d+), _ctx\)"),
                 ("alt", r"enterOuterAlt\(_localctx, (\d+)\)"), ("tok", r"\bblackbirdParser::([A-Z][A-Z_]*)\b(?!Context)")] if cpp else
                [("state", r"self\.state = (\d+)"), ("match", r"self\.match\(blackbirdParser\.(\w+)\)"), ("predict", r"adaptivePredict\(self\._input,(\d+),self\._ctx\)"),
                 ("alt", r"self\.enterOuterAlt\(localctx, (\d+)\)"), ("tok", r"\bblackbirdParser\.([A-Z][A-Z_]*)\b")])
        ev = []
        for kind, pat in pats:
            for m_ in re.finditer(pat, txt):
                ev.append((m_.start(), kind, m_.group(1)))
        ev.sort()
        out_, seen_match = [], set()
        for pos_, kind, val in ev:
            if kind == "match":
                seen_match.add(pos_)
        # a token name inside match(...) is reported once (as "match")
        res = []
        last_match_end = -1
        for pos_, kind, val in ev:
            if kind == "tok" and any(0 <= pos_ - mp < 40 for mp in seen_match if mp <= pos_):
                continue
            res.append((kind, val))
        return res
    py_txt = _read(os.path.join(PY, "blackbirdParser.py"))
    cpp_txt = _read(os.path.join(CPP, "blackbirdParser.cpp"))
    body_py = py_txt[py_txt.index("class StartContext"):] if "class StartContext" in py_txt else py_txt
    body_cpp = cpp_txt[cpp_txt.index("StartContext::StartContext"):cpp_txt.index("_decisionToDFA", cpp_txt.index("StartContext::StartContext"))] \
        if "StartContext::StartContext" in cpp_txt else cpp_txt
    for kinds in (("state", "match", "predict", "alt"),):
        a_ = [e for e in skeleton(body_py, False) if e[0] in kinds]
        b_ = [e for e in skeleton(body_cpp, True) if e[0] in kinds]
        diff("parser-code-skeleton", a_, b_, "state/match/prediction/alternative sequence of blackbirdParser.py and blackbirdParser.cpp")
    for fn, cls, rules in (("blackbirdParser.cpp", "blackbirdParser", list(g.rule_names)), ("blackbirdLexer.cpp", "blackbirdLexer", lexer_rules)):
        path = os.path.join(CPP, fn)
        diff("cpp-%s-ruleNames" % cls, cpp_vector(path, "_ruleNames"), rules, "%s::_ruleNames and grammar" % cls)
        diff("cpp-%s-symbolicNames" % cls, _pad(norm_names(cpp_vector(path, "_symbolicNames")), len(sym)), sym, "%s::_symbolicNames and grammar" % cls)
        diff("cpp-%s-literalNames" % cls, _pad(norm_names(cpp_vector(path, "_literalNames")), len(lit)), lit, "%s::_literalNames and grammar" % cls)
    for (tag, fn), (sections, _) in isec.items():
        diff("%s-%s-symbolic" % (tag, fn), _pad(norm_names(sections["token symbolic names"]), len(sym)), sym, "%s %s symbolic names and grammar" % (tag, fn))
        diff("%s-%s-literal" % (tag, fn), _pad(norm_names(sections["token literal names"]), len(lit)), lit, "%s %s literal names and grammar" % (tag, fn))
        rules = lexer_rules if fn.startswith("blackbirdLexer") else list(g.rule_names)
        diff("%s-%s-rules" % (tag, fn), sections["rule names"], rules, "%s %s rule names and grammar" % (tag, fn))
    # --- .tokens
    want_tokens = [(n, i + 1) for i, n in enumerate(g.token_names)] + [("'%s'" % g.literal[n], i + 1) for i, n in enumerate(g.token_names) if n in g.literal]
    for d, tag in ((PY, "python"), (CPP, "cpp")):
        for fn in ("blackbird.tokens", "blackbirdLexer.tokens"):
            diff("%s-%s" % (tag, fn), tokens_file(os.path.join(d, fn)), want_tokens, "%s %s and grammar token numbering" % (tag, fn))
    # --- listener / visitor method sets
    labels = []
    for n, _, labs in g.parser_rules:
        labels.extend(labs)
    # a rule whose alternatives are all labelled gets methods for the labels only
    ctxs = sorted(set(n[0].upper() + n[1:] for n, _, labs in g.parser_rules if not labs) | set(labels))
    from blackbird.blackbirdListener import blackbirdListener
    have = sorted(m for m in vars(blackbirdListener) if m.startswith(("enter", "exit")))
    want = sorted(["enter" + c for c in ctxs] + ["exit" + c for c in ctxs])
    diff("python-listener-methods", have, want, "blackbirdListener methods and grammar rules/labels")
    for fn in ("blackbirdVisitor.h", "blackbirdBaseVisitor.h"):
        txt = _read(os.path.join(CPP, fn))
        have = sorted(set(re.findall(r"\b(visit[A-Z]\w*)\s*\(\s*blackbirdParser::", txt)))
        want = sorted("visit" + c for c in ctxs)
        diff("cpp-%s-methods" % fn, have, want, "%s visit methods and grammar rules/labels" % fn)
    return finds, compared


def _pad(lst, n):
    return list(lst) + [None] * (n - len(lst))


# ------------------------------------------------------------------ bounded-exhaustive sentences

def sentences_upto(max_len, cap):
    """All sentences of rule 'program' with at most max_len tokens (as tuples of token names), capped."""
    cfg = ref.cfg()
    by, ml = cfg.by_lhs, cfg.min_len
    memo = {}

    def gen(sym_seq, budget):
        """set of tuples derivable from a sequence of symbols with total length <= budget"""
        key = (sym_seq, budget)
        if key in memo:
            return memo[key]
        if not sym_seq:
            return {()}
        first, rest = sym_seq[0], sym_seq[1:]
        rest_min = sum(1 if s[0] == "t" else ml[s[1]] for s in rest)
        out = set()
        if first[0] == "t":
            if budget - 1 >= rest_min:
                for tail in gen(rest, budget - 1):
                    out.add((first[1],) + tail)
        else:
            for rhs in by[first[1]]:
                need = sum(1 if s[0] == "t" else ml[s[1]] for s in rhs)
                if need + rest_min > budget:
                    continue
                for head in gen(tuple(rhs), budget - rest_min):
                    for tail in gen(rest, budget - len(head)):
                        out.add(head + tail)
                        if len(out) > cap:
                            break
        memo[key] = out
        return out
    res = gen((("n", "program"),), max_len)
    return sorted(res)


def _check_sentence(names):
    full = ["PROGNAME", "NAME", "NEWLINE", "VERSION", "FLOAT", "NEWLINE"] + list(names)
    ok, _ = ref.cfg().recognise(full + ["EOF"])
    got, errs = shipped_parser_verdict(full)
    return names, ok, got, errs


_BASE_SENTENCES = [
    # one full script touching every parser rule (token names)
    "PROGNAME NAME NEWLINE VERSION FLOAT NEWLINE TARGET DEVICE LBRAC NAME ASSIGN INT COMMA NAME ASSIGN LSQBRAC STR COMMA BOOL RSQBRAC RBRAC NEWLINE "
    "PROGTYPE NAME LBRAC NAME ASSIGN INT RBRAC NEWLINE INCLUDE STR NEWLINE "
    "TYPE_FLOAT NAME ASSIGN MINUS FLOAT PWR INT TIMES LBRAC PI PLUS NAME LSQBRAC INT RSQBRAC RBRAC NEWLINE "
    "TYPE_COMPLEX TYPE_ARRAY NAME LSQBRAC INT COMMA INT RSQBRAC ASSIGN NEWLINE TAB COMPLEX COMMA LBRACE NAME RBRACE NEWLINE "
    "NAME LBRAC SIN LBRAC REGREF RBRAC COMMA NAME ASSIGN NAME RBRAC APPLY LSQBRAC INT COMMA INT RSQBRAC NEWLINE "
    "MEASURE APPLY INT NEWLINE "
    "FOR TYPE_INT NAME IN INT COLON INT COLON INT NEWLINE TAB NAME APPLY NAME NEWLINE TAB MEASURE LBRAC RBRAC APPLY LBRAC NAME RBRAC NEWLINE "
    "FOR TYPE_STR NAME IN LSQBRAC STR COMMA STR RSQBRAC NEWLINE TAB NAME LBRAC NAME RBRAC APPLY INT NEWLINE",
    "NEWLINE PROGNAME NAME NEWLINE NEWLINE VERSION FLOAT NEWLINE NAME APPLY INT",
]


def _edit_sequences(tier):
    """Every single-token deletion, substitution and insertion (over the whole token alphabet) of the base sentences."""
    g = ref.grammar()
    names = list(g.token_names)
    for base in _BASE_SENTENCES:
        toks = base.split()
        yield toks
        for i in range(len(toks)):
            yield toks[:i] + toks[i + 1:]
            for n in names:
                if n != toks[i]:
                    yield toks[:i] + [n] + toks[i + 1:]
            if tier != "quick" or i % 3 == 0:
                for n in names:
                    yield toks[:i] + [n] + toks[i:]
            # two-token edits that keep list-like rules in step: drop or repeat an adjacent pair (", INT", "NEWLINE TAB" ...)
            if i + 1 < len(toks):
                yield toks[:i] + toks[i + 2:]
                yield toks[:i + 2] + toks[i:i + 2] + toks[i + 2:]
            if i + 2 < len(toks):
                yield toks[:i] + toks[i + 3:]


def _check_edit(names):
    ok, k = ref.cfg().recognise(list(names) + ["EOF"])
    got, errs = shipped_parser_verdict(list(names))
    return names, ok, got, errs, k


def _codepoint_chunk(pts):
    bad = []
    n = 0
    lx = ref.lexer()
    for cp in pts:
        ch = chr(cp)
        for text in ("x" + ch + "y", ch, "1" + ch + " 2", ch + "name a", "a 1" + ch):
            n += 1
            want = [(t.type, t.text if t.type != -1 else "<EOF>", t.start, t.stop, t.line, t.col) + ((1,) if t.name.endswith("@hidden") else ())
                    for t in lx.tokens(text, hidden=True)]
            got = ref.shipped_tokens(text, hidden=True)
            if got != want and len(bad) < 3:
                bad.append((text, got, want))
    return n, bad


def _lexer_codepoints(tier, pool):
    """Every code point of the BMP (quick: 0..0x2FFF densely, every 13th above, and above 0x3000 all format characters,
    separators, digits/numerals, connectors, dashes and specials such as U+FEFF) in the contexts 'x<c>y', '<c>', '1<c> 2',
    '<c>name a' and 'a 1<c>': the shipped lexer must tokenise exactly like the grammar (whitespace look-alikes, controls, non-ASCII letters)."""
    pts = list(range(0, 0x3000)) + list(range(0x3000, 0x10000, 1 if tier != "quick" else 13)) + [0x1F600, 0x10FFFF, 0xE0001]
    if tier == "quick":
        # the code points above 0x3000 that text-processing code tends to single out are never skipped: format characters
        # (byte order mark, zero-width joiners), separators, digits and numerals, connectors / dashes, specials, noncharacters
        import unicodedata
        pts += [c for c in range(0x3000, 0x10000) if unicodedata.category(chr(c)) in ("Cf", "Zs", "Zl", "Zp", "Cc", "Nd", "Nl", "No", "Pc", "Pd", "Cn")]
        pts += [0xFEFF, 0xFFFE, 0xFFFF, 0xFFFD, 0xFFFC, 0xFF10, 0xFF21, 0xFF3F, 0xFE33]
        pts = sorted(set(pts))
    pts = [c for c in pts if not 0xD800 <= c <= 0xDFFF]
    chunks = [pts[i::32] for i in range(32)]
    n, bad = 0, []
    for cn, cb in pool.imap_unordered(_codepoint_chunk, chunks):
        n += cn
        bad.extend(cb)
    return n, bad[:3]


def _check_edit_chunk(seqs):
    return [_check_edit(sq) for sq in seqs]


def extra(tier, seed):
    finds, compared = artefact_findings()
    buckets = {}
    for b, d in finds:
        buckets.setdefault(b, {"detail": d, "case": {"part": "artefact", "bucket": b}, "size": 0})
    # --- exhaustive single-token edits of base sentences (parser) and single code points (lexer)
    n_edits = 0
    g = ref.grammar()
    pool = multiprocessing.get_context("fork").Pool(min(16, os.cpu_count() or 1))
    seqs = list(_edit_sequences(tier))
    edit_results = [r for chunk in pool.imap_unordered(_check_edit_chunk, [seqs[i::64] for i in range(64)]) for r in chunk]
    for names, ok, got, errs, k in edit_results:
        n_edits += 1
        if got != ok:
            b = "parser|verdict|%s" % ("accepts-non-sentence" if got else "rejects-sentence")
            buckets.setdefault(b, {"detail": "shipped parser %s, grammar %s (first non-viable token index %r; parser error %r)\ntokens: %s" % (
                "accepts" if got else "rejects", "accepts" if ok else "rejects", k, errs, " ".join(names)),
                "case": {"part": "parser", "kind": "edit", "names": list(names)}, "size": len(names)})
    n_chars, bad = _lexer_codepoints(tier, pool)
    for text, got, want in bad:
        b = "lexer|token-mismatch|single-code-point"
        buckets.setdefault(b, {"detail": "shipped lexer %r, grammar prescribes %r\ntext: %r (U+%04X)" % (got, want, text, ord(text[1]) if len(text) > 1 else ord(text[0])),
                               "case": {"part": "lexer", "text": text}, "size": len(text)})
    max_len, cap = (5, 4000) if tier == "quick" else (7, 3000000)
    sents = sentences_upto(max_len, cap)
    complete = len(sents) <= cap
    if tier == "quick" and len(sents) > 4000:
        # deterministic sub-sample for the quick tier (the thorough tier runs all of them)
        sents = sents[::max(1, len(sents) // 2500)]
        complete = False
    bad = 0
    results = pool.imap_unordered(_check_sentence, sents, chunksize=200)
    n = 0
    for names, ok, got, errs in results:
        n += 1
        if not ok:
            raise HarnessError("enumerated sentence not accepted by the reference recogniser: %r" % (names,))
        if not got and bad < 3:
            bad += 1
            b = "parser|enumerated-sentence-rejected"
            buckets.setdefault(b, {"detail": "shipped parser rejects the sentence %s (%r)" % (" ".join(names), errs),
                                   "case": {"part": "parser", "kind": "enumerated", "names": ["PROGNAME", "NAME", "NEWLINE", "VERSION", "FLOAT", "NEWLINE"] + list(names)}, "size": len(names)})
    pool.close()
    pool.join()
    return {"buckets": buckets, "evaluations": n + n_edits + n_chars,
            "coverage": {"artefact_items_compared": compared, "artefact_comparison_exhaustive": True,
                         "single_token_edits_of_base_sentences": n_edits, "single_code_point_lexer_strings": n_chars,
                         "enumerated_sentences": n, "enumerated_sentence_max_len": max_len, "enumeration_complete_for_bound": complete}}


def replay(case):
    if case.get("part") == "artefact":
        finds, _ = artefact_findings()
        out = Outcome()
        for b, d in finds:
            if b == case["bucket"]:
                out.violations.append(Violation(b, d))
        return out
    return check(case)

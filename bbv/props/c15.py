"""C15 -- tdm programs pass p-arrays by name and keep their data (generator used by C01 as well)."""
from hypothesis import strategies as st

from ..model import ast as A, strategies as S


@st.composite
def tdm_script(draw, tier, control=False):
    """A tdm script: p-arrays p<digits> (int/float/complex, 1 x n and r x c), ordinary scalars and arrays
    (also named pa, px1), optional template parameters in arguments, loops; control=True -> same with a non-tdm type."""
    big = tier != "quick"
    ctx = S.Ctx(depth=2 if big else 1)
    opts = draw(S.option_args(ctx))
    ptype = A.Meta("tdm" if not control else draw(st.sampled_from(["tdmx", "TDM", "other"])), opts)
    target = draw(st.one_of(st.none(), st.builds(A.Meta, S.device_name(), st.one_of(st.none(), S.option_args(ctx)))))
    params = draw(st.lists(S.ident(for_param=True).filter(lambda n: not (n[0] == "p" and n[1:].isdigit())),
                           min_size=0, max_size=2, unique=True))
    ctx.params = params
    items = []
    pnames = draw(st.lists(st.sampled_from(["p0", "p1", "p2", "p7", "p12", "p007", "p3"]), min_size=0, max_size=4, unique=True))
    for pn in pnames:
        d = draw(S.array_decl(ctx, name=pn, max_rows=draw(st.sampled_from([1, 1, 1, 3])), max_cols=5))
        ctx.frozen.add(pn)
        items.append(d)
        if draw(st.integers(0, 2)) == 0:
            items.append(draw(S.scalar_decl(ctx)))
    for _ in range(draw(st.integers(0, 2))):
        nm = draw(st.sampled_from(["pa", "px1", "A", "arr", "p_1", "P0", "pp0", "p1a"]))
        if nm not in ctx.used:
            items.append(draw(S.array_decl(ctx, name=nm)))
    n = draw(st.integers(1, 10 if big else 6))
    for _ in range(n):
        k = draw(st.sampled_from(["stmt", "stmt", "stmt", "pstmt", "pstmt", "loop", "scalar"]))
        if k == "scalar":
            items.append(draw(S.scalar_decl(ctx)))
        elif k == "loop":
            items.append(draw(S.for_loop(ctx, symbolic="params" if params else None)))
        elif k == "stmt":
            items.append(draw(S.statement(ctx, symbolic="params" if params else None)))
        else:
            stt = draw(S.statement(ctx, symbolic="params" if params else None))
            if pnames:
                if stt.args is None:
                    stt.args = A.Args([], [], False)
                ref = S.F1(A.Var(draw(st.sampled_from(pnames))))
                if draw(st.booleans()) or not stt.args.kwargs:
                    stt.args.pos.insert(draw(st.integers(0, len(stt.args.pos))), ref)
                    stt.args.trailing_comma = False
                else:
                    i = draw(st.integers(0, len(stt.args.kwargs) - 1))
                    stt.args.kwargs[i][1] = ref
            items.append(stt)
    return A.Script(draw(S.ident()), "1.0", target, ptype, [], items)

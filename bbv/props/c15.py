"""C15 -- tdm programs pass p-arrays by name and keep their data (generator used by C01 as well)."""
from hypothesis import strategies as st

from ..model import ast as A, strategies as S


@st.composite
def tdm_script(draw, tier, control=False):
    """A tdm script: p-arrays p<digits> (int/float/complex, 1 x n and r x c), ordinary scalars and arrays
    (also named pa, px1), optional template parameters in arguments, loops; control=True -> same with a non-tdm type."""
    big = tier != "quick"
    ctx = S.Ctx(depth=2 if big else 1)
    opts = draw(S.option_args(ctx))
    ptype = A.Meta("tdm" if not control else draw(st.sampled_from(["tdmx", "TDM", "other"])), opts)
    target = draw(st.one_of(st.none(), st.builds(A.Meta, S.device_name(), st.one_of(st.none(), S.option_args(ctx)))))
    params = draw(st.lists(S.ident(for_param=True).filter(lambda n: not (n[0] == "p" and n[1:].isdigit())),
                           min_size=0, max_size=2, unique=True))
    ctx.params = params
    items = []
    pnames = draw(st.lists(st.sampled_from(["p0", "p1", "p2", "p7", "p12", "p007", "p3"]), min_size=0, max_size=4, unique=True))
    # names of the form p<digits> are reserved for p-arrays in this generator (a scalar called p12 that is later
    # declared again as an array would be passed by name where the model expects its value)
    ctx.used.update(["p0", "p1", "p2", "p3", "p7", "p12", "p007"])
    ctx.used.update(["p4", "p5", "p9", "p10"])

    def scalar():
        # a third of the scalars is called p<digits> (names no array of this script uses): still an ordinary variable
        free = [n_ for n_ in ["p4", "p5", "p9", "p10"] if n_ not in ctx.frozen]
        if free and draw(st.integers(0, 2)) == 0:
            nm_ = draw(st.sampled_from(free))
            ctx.frozen.add(nm_)
            return draw(S.scalar_decl(ctx, name=nm_))
        return draw(S.scalar_decl(ctx))

    for pn in pnames:
        # (sometimes with bare {x} elements: the array is still a p-array and is still passed by name)
        d = draw(S.array_decl(ctx, name=pn, max_rows=draw(st.sampled_from([1, 1, 1, 3])), max_cols=5,
                              symbolic="params" if (params and draw(st.integers(0, 3)) == 0) else None))
        ctx.frozen.add(pn)
        items.append(d)
        if draw(st.integers(0, 2)) == 0:
            items.append(scalar())
    for _ in range(draw(st.integers(0, 2))):
        # (A<n>: the names the serialiser gives to array arguments it declares itself)
        nm = draw(st.sampled_from(["pa", "px1", "A", "arr", "p_1", "P0", "pp0", "p1a", "A0", "A1", "A3", "A10", "A01"]))
        if nm not in ctx.used:
            items.append(draw(S.array_decl(ctx, name=nm)))
    n = draw(st.integers(1, 10 if big else 6))
    for _ in range(n):
        k = draw(st.sampled_from(["stmt", "stmt", "stmt", "pstmt", "pstmt", "loop", "scalar"]))
        if k == "scalar":
            items.append(scalar())
        elif k == "loop":
            items.append(draw(S.for_loop(ctx, symbolic="params" if params else None)))
        elif k == "stmt":
            items.append(draw(S.statement(ctx, symbolic="params" if params else None)))
        else:
            stt = draw(S.statement(ctx, symbolic="params" if params else None))
            if pnames:
                if stt.args is None:
                    stt.args = A.Args([], [], False)
                ref = S.F1(A.Var(draw(st.sampled_from(pnames))))
                form = draw(st.integers(0, 7))
                if form == 0:
                    ref = S.F1(A.Paren(ref))                                   # (p1)
                elif form == 1:
                    ref = A.Flat([A.Operand("+", ref.operands[0].prim)], [])   # +p1
                elif form == 2:
                    ref = S.F1(A.Paren(S.F1(A.Paren(ref))))                    # ((p1))
                elif form == 3 and stt.args.kwargs:
                    other = S.F1(A.Var(draw(st.sampled_from(pnames))))
                    stt.args.kwargs[0][1] = A.ListVal([ref, S.F1(A.Paren(other))] if draw(st.booleans()) else [ref])   # k=[p1, (p3)]
                    items.append(stt)
                    continue
                if draw(st.booleans()) or not stt.args.kwargs:
                    stt.args.pos.insert(draw(st.integers(0, len(stt.args.pos))), ref)
                    stt.args.trailing_comma = False
                else:
                    i = draw(st.integers(0, len(stt.args.kwargs) - 1))
                    stt.args.kwargs[i][1] = ref
            items.append(stt)
    return A.Script(draw(S.ident()), "1.0", target, ptype, [], items)


# ------------------------------------------------------------------ the check

import numpy as np

from ..run import Outcome, Violation, exc_bucket
from .. import canon
from ..valuecmp import IllConditioned
from ..model import refsem
from . import common as K

ID = "C15"
RULE = ("Hypothesis constructs tdm scripts (type tdm with options) with 0..4 int/float/complex p-arrays (p0, p1, p7, p12, p007; 1 x n and "
        "r x c) used in positional and keyword position, ordinary scalars and arrays (also named pa, px1, p1a, P0), template parameters "
        "in arguments, loops; and a control group with a non-tdm type. Oracle (reference model + round trip): arguments that are p-array "
        "names arrive as the name (a str), variables[name] is the declared array (exact, 2-D), other variables are passed by value, "
        "parameters contains no p-name and is_template() iff a {} parameter is written; q = loads(dumps(p)) preserves the p-arrays "
        "exactly, the references to them and all operations. In the control group p-arrays are passed by value. Non-trivial = >=2 "
        "p-arrays and an ordinary variable or template parameter. Distinct = SHA-1 of the script text."
        " A quarter of the scripts also carries an include line for an ordinary program that declares its own p0 array"
        " and is never applied.")
ASSUMPTIONS = ["reference interpreter"]
BUDGET = {"quick": (1200, 4), "thorough": (26000, 16)}


@st.composite
def case(draw, tier):
    control = draw(st.integers(0, 5)) == 0
    return {"script": draw(tdm_script(tier, control)), "layout": draw(K.layout_light()), "control": control,
            "include": draw(st.integers(0, 3)) == 0}


def strategy(tier):
    return case(tier)


dump_case, load_case = K.dump_case, K.load_case


_HELPER = {}


def _helper_file():
    import atexit, os, shutil, tempfile
    if "p" not in _HELPER:
        d = tempfile.mkdtemp(prefix="bbv-c15-")
        atexit.register(shutil.rmtree, d, True)
        _HELPER["p"] = os.path.join(d, "helper.xbb")
        with open(_HELPER["p"], "w", encoding="ascii") as f:
            f.write("name helper\nversion 1.0\nfloat array p0 =\n    0.5, 0.25\nSgate(p0[0]) | 0\n")
    return _HELPER["p"]


def check(c):
    script = c["script"]
    try:
        ref = K.reference(script)
    except K.Discard as d:
        return Outcome(discard=d.reason)
    text = K.render_case(c)
    feats, nstmt = K.features(script)
    import re
    if c.get("include"):
        # the tdm script also includes another (ordinary, never applied) program: what the included file declares about
        # itself does not change how the including program treats its p-arrays
        lines = text.split("\n")
        tline = [i for i, l in enumerate(lines) if l.lstrip().startswith("type")]
        if tline:
            lines.insert(tline[0] + 1, 'include "%s"' % _helper_file())
            text = "\n".join(lines)
            feats = set(feats) | {"include-line"}
    pnames = [it.name for it in script.items if isinstance(it, A.ArrayDecl) and re.match(r"^p[0-9]+$", it.name)]
    out = Outcome(key=text, sample={"script": text}, classes=sorted(feats | {"control" if c["control"] else "tdm", "p-arrays:%d" % len(pnames)}))
    out.nontrivial = len(pnames) >= 2 and bool(feats & {"scalar", "param"} or len([1 for it in script.items if isinstance(it, A.ArrayDecl)]) > len(pnames))
    p, e = K.safe_loads(text)
    if e is not None:
        out.violations.append(Violation(exc_bucket("load", e), "valid tdm script refused: %s: %s\n%s" % (type(e).__name__, e, text)))
        return out
    try:
        mm = canon.compare_ref(p, ref)
        for name, rv in ref.variables.items():
            if name not in p.variables:
                mm.append(canon.Mismatch("variable-missing", "variable %s missing from program.variables" % name))
            elif not isinstance(rv, refsem.RSym):
                canon.value_matches(rv, p.variables[name], "variable-p-array" if name in pnames else "variable", mm)
    except IllConditioned:
        return Outcome(discard="ill-conditioned")
    if set(p.parameters) != set(ref.params):
        mm.append(canon.Mismatch("parameters", "expected %r, got %r" % (sorted(ref.params), sorted(p.parameters))))
    if bool(p.is_template()) != bool(ref.params):
        mm.append(canon.Mismatch("is_template", "is_template()=%r with written parameters %r" % (p.is_template(), sorted(ref.params))))
    if mm:
        out.violations.extend(K.mismatch_violations("tdm-load", mm, text))
        return out
    if c["control"]:
        return out
    if any(canon.contains_sympy(v) for v in p.variables.values()):
        out.classes.append("p-array-with-template-parameter")
    t, e = K.safe_dumps(p)
    if e is not None:
        out.violations.append(Violation(exc_bucket("dumps", e), "dumps raised %s: %s\n%s" % (type(e).__name__, e, text)))
        return out
    q, e = K.safe_loads(t)
    if e is not None:
        out.violations.append(Violation(exc_bucket("reload", e), "serialised tdm program does not load: %s: %s\n%s\nsource:\n%s" % (type(e).__name__, e, t, text)))
        return out
    mm = canon.compare_programs(p, q)
    for name in pnames:
        if name not in q.variables:
            mm.append(canon.Mismatch("p-array-lost", "p-array %s missing after the round trip" % name))
        else:
            canon.values_equal(p.variables[name], q.variables[name], "p-array", mm)
    out.violations.extend(K.mismatch_violations("tdm-roundtrip", mm, "%s\nserialised as:\n%s" % (text, t)))
    return out

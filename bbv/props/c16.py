"""C16 -- the dependency graph is an order-respecting DAG of the operations."""
import networkx as nx
from hypothesis import strategies as st

from ..model import ast as A, strategies as S, render
from ..run import Outcome, Violation, exc_bucket, HarnessError
from .. import canon
from . import common as K

ID = "C16"
RULE = ("Hypothesis constructs scripts of 1..25 operations over modes 0..6 (argument-less, multi-mode, repeated modes, numeric "
        "arguments, measured-register expressions over 1..3 registers in positional and keyword position), loads them and calls "
        "to_DiGraph. Oracle (own model): node set == range(len(ops)); node attributes equal the operation's name, args, kwargs, "
        "tuple(modes); every edge (i, j) has i < j; acyclic; j in descendants(i) iff j is reachable from i in the transitive closure "
        "of 'i < j and (modes+registers)(i) intersects (modes+registers)(j)'; for 5 generated topological orders the order of "
        "operations on every wire equals the program's. Non-trivial = >=6 operations, an operation on >=2 wires and a register "
        "dependency. Distinct = SHA-1 of script text.")
ASSUMPTIONS = ["networkx graph algorithms", "registers listed by a transform are those written (C08)"]
BUDGET = {"quick": (2000, 4), "thorough": (50000, 16)}


@st.composite
def case(draw, tier):
    n = draw(st.integers(1, 25 if tier != "quick" else 14))
    nmodes = draw(st.integers(1, 7))
    items = []
    for _ in range(n):
        op = draw(st.sampled_from(["S", "BS", "Vac", "D", "MeasureX", "MeasureFock", "R", "Z"]))
        k = draw(st.sampled_from([1, 1, 1, 2, 2, 3]))
        modes = [S.F1(A.Num("int", str(draw(st.one_of(st.integers(0, nmodes - 1), st.integers(0, nmodes - 1), st.sampled_from([1, 10, 11, 12, 2, 20, 21, 100]), st.sampled_from([2 ** 53, 2 ** 53 + 1, 2 ** 53 + 2, 2 ** 60 + 1, 2 ** 60 + 2])))))) for _ in range(k)]
        args = None
        c = draw(st.integers(0, 5))
        if c >= 2:
            pos, kw = [], []
            for _ in range(draw(st.integers(0, 2))):
                pos.append(draw(_arg(nmodes)))
            for key in draw(st.lists(st.sampled_from(["a", "phi", "select", "modes", "args", "kwargs", "op"]), max_size=2, unique=True)):
                kw.append([key, draw(_arg(nmodes))])
            args = A.Args(pos, kw, False)
        items.append(A.Stmt(op, args, modes, "[", "]"))
    prio = draw(st.lists(st.permutations(list(range(n))), min_size=5, max_size=5))
    return {"script": A.Script("g", "1.0", None, None, [], items), "prio": [list(p) for p in prio]}


@st.composite
def _arg(draw, nmodes):
    c = draw(st.integers(0, 4))
    if c == 4:
        return draw(st.sampled_from([S.F1(A.Param("a")), A.Flat([A.Operand("", A.Num("int", "2")), A.Operand("", A.Param("b"))], ["*"]),
                                     A.Flat([A.Operand("", A.Param("a")), A.Operand("", A.Param("b"))], ["+"])]))
    if c == 0:
        return S.F1(A.Num("float", "0.5"))
    if c == 1:
        return S.F1(A.Num("int", str(draw(st.integers(0, 9)))))
    regs = draw(st.lists(st.one_of(st.integers(0, nmodes), st.integers(0, nmodes), st.sampled_from([10, 11, 12, 20, 21, 100, 101])),
                         min_size=1, max_size=3, unique=True))
    operands = [A.Operand(draw(st.sampled_from(["", "-"])), A.Reg("q%d" % r)) for r in regs]
    ops = [draw(st.sampled_from(["+", "*", "-"])) for _ in regs[1:]]
    if draw(st.booleans()):
        operands.insert(0, A.Operand("", A.Num("float", "2.5")))
        ops.insert(0, "*")
    return A.Flat(operands, ops)


def strategy(tier):
    return case(tier)


dump_case, load_case = K.dump_case, K.load_case


def _is_rrt(x):
    return type(x).__name__ == "RegRefTransform"


def deps(op):
    d = set(int(m) for m in op["modes"])
    for a in list(op.get("args", [])) + list((op.get("kwargs") or {}).values()):
        if _is_rrt(a):
            d |= set(a.regrefs)
    return d


def check(c):
    from blackbird.utils import to_DiGraph
    script = c["script"]
    try:
        text = render.render(script)
    except render.RenderError as e:
        raise HarnessError(str(e))
    p, e = K.safe_loads(text)
    if e is not None:
        return Outcome(discard="load-failed:" + type(e).__name__)
    ops = p.operations
    D = [deps(o) for o in ops]
    n = len(ops)
    regdep = any(D[i] - set(int(m) for m in ops[i]["modes"]) for i in range(n))
    out = Outcome(key=text, sample={"script": text}, classes=["ops:%s" % ("1-5" if n < 6 else "6+")])
    if regdep:
        out.classes.append("register-dependency")
    if any(len(d) >= 2 for d in D):
        out.classes.append("multi-wire-operation")
    out.nontrivial = n >= 6 and regdep and any(len(d) >= 2 for d in D)
    before = canon.snapshot(p)
    try:
        G = to_DiGraph(p)
    except Exception as e2:
        out.violations.append(Violation(exc_bucket("to_DiGraph", e2), "to_DiGraph raised %s: %s\n%s" % (type(e2).__name__, e2, text)))
        return out
    MD = model_deps(script)
    verify(p, G, c["prio"], text, out.violations, "", MD)
    if out.violations:
        return out
    if canon.snapshot(p) != before:
        out.classes.append("program-changed-by-conversion")   # C13's business; counted only
    # --- the graph is a function of the program as it is NOW (objects derived from a converted program)
    import copy
    try:
        p2 = copy.deepcopy(p)
        p2.operations.append({"op": "Extra", "modes": [0]})
        verify(p2, to_DiGraph(p2), c["prio"][:1], text + "\n(+ operation 'Extra | 0' appended through the API to a deep copy, after the conversion above)",
               out.violations, "after-modification|", MD + [{0}])
        if not out.violations and p.is_template():
            out.classes.append("template-then-instance")
            inst = p(**{name: 0.3 + 0.1 * i for i, name in enumerate(sorted(p.parameters))})
            verify(inst, to_DiGraph(inst), c["prio"][:1], text + "\n(instance of the template above, converted after the template was converted)",
                   out.violations, "instance-after-template|", MD)
    except Exception as e3:
        out.violations.append(Violation(exc_bucket("derived-program", e3), "%s: %s\n%s" % (type(e3).__name__, e3, text)))
    return out


def model_deps(script):
    """Wires of every statement as WRITTEN in the script: its modes and the registers occurring in its arguments
    (independent of what the loaded transforms list)."""
    out = []
    for st_ in script.items:
        d = {int(m.operands[0].prim.text) for m in st_.modes}
        if st_.args is not None:
            for v in list(st_.args.pos) + [x for _, x in st_.args.kwargs]:
                if isinstance(v, A.Flat):
                    d |= {int(p.text[1:]) for p in A.walk_prims(v) if isinstance(p, A.Reg)}
        out.append(d)
    return out


def verify(p, G, prios, text, v, tag, D=None):
    """Append violations of the C16 statement for program p and its graph G."""
    ops = p.operations
    D = [deps(o) for o in ops] if D is None else D
    n = len(ops)

    class _O:
        pass
    out = _O()
    if sorted(G.nodes()) != list(range(n)):
        v.append(Violation(tag + "graph|node-set", "nodes %r, expected 0..%d\n%s" % (sorted(G.nodes()), n - 1, text)))
        return
    for i, o in enumerate(ops):
        at = G.nodes[i]
        want = {"name": o["op"], "args": o.get("args", []), "kwargs": o.get("kwargs", {}), "modes": tuple(o["modes"])}
        for k_, w in want.items():
            if k_ not in at or not _same(at[k_], w):
                v.append(Violation(tag + "graph|node-attribute-" + k_, "node %d: %s=%r, operation has %r\n%s" % (i, k_, at.get(k_), w, text)))
                return
    for a, b in G.edges():
        if not a < b:
            v.append(Violation(tag + "graph|edge-direction", "edge (%d, %d) does not point forward\n%s" % (a, b, text)))
            return
    if not nx.is_directed_acyclic_graph(G):
        v.append(Violation(tag + "graph|cycle", "graph has a cycle\n%s" % text))
        return
    # own reachability relation
    reach = [set() for _ in range(n)]
    for i in range(n - 1, -1, -1):
        for j in range(i + 1, n):
            if D[i] & D[j]:
                reach[i].add(j)
                reach[i] |= reach[j]
    for i in range(n):
        got = set(nx.descendants(G, i))
        if got != reach[i]:
            extra, missing = sorted(got - reach[i]), sorted(reach[i] - got)
            v.append(Violation(tag + "graph|reachability|%s" % ("missing" if missing else "extra"),
                               "from operation %d: graph reaches %r, dependency chains reach %r (missing %r, extra %r)\n%s" % (
                                   i, sorted(got), sorted(reach[i]), missing, extra, text)))
            return
    # generated topological orders keep the order on every wire
    wires = sorted(set().union(*D)) if D else []
    for prio in prios:
        rank = {node: r for r, node in enumerate(prio)}
        indeg = {i: G.in_degree(i) for i in range(n)}
        avail = [i for i in range(n) if indeg[i] == 0]
        order = []
        while avail:
            avail.sort(key=lambda x: rank.get(x, x))
            x = avail.pop(0)
            order.append(x)
            for y in G.successors(x):
                indeg[y] -= 1
                if indeg[y] == 0:
                    avail.append(y)
        if len(order) != n:
            v.append(Violation(tag + "graph|topological-order-incomplete", "Kahn's algorithm visited %d of %d nodes\n%s" % (len(order), n, text)))
            return
        pos = {x: i for i, x in enumerate(order)}
        for q in wires:
            seq = [i for i in range(n) if q in D[i]]
            if sorted(seq, key=lambda x: pos[x]) != seq:
                v.append(Violation(tag + "graph|wire-order", "topological order %r reorders wire %r (%r)\n%s" % (order, q, seq, text)))
                return
    return


def _same(a, b):
    if isinstance(a, (list, tuple)) and isinstance(b, (list, tuple)):
        return len(a) == len(b) and type(a) is type(b) and all(_same(x, y) for x, y in zip(a, b))
    if isinstance(a, dict) and isinstance(b, dict):
        return list(a) == list(b) and all(_same(a[k], b[k]) for k in a)
    if _is_rrt(a) or _is_rrt(b):
        return a is b
    try:
        return bool(a == b) and type(a) is type(b)
    except Exception:
        return a is b

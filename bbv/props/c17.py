"""C17 -- template matching inverts instantiation, independent of commuting order."""
from hypothesis import strategies as st

from ..model import ast as A, strategies as S, render
from ..run import Outcome, Violation, exc_bucket, HarnessError
from . import common as K
from .c04 import substitute

ID = "C17"
RULE = ("Hypothesis constructs templates of 1..8 operations whose positional arguments are numbers or affine c1*{p}+c0 (also {p}, "
        "-{p}, {p}*c1, c0+c1*{p}) in one parameter, parameters repeated across operations and arguments (each occurs at least once), "
        "optional target, over modes 0..4; generic real values; the instance is produced by TEXT substitution (independent of "
        "__call__) and re-ordered by a generated sequence of adjacent swaps of statements with disjoint modes. Positive oracle: "
        "match_template returns a dict with exactly the template's parameters whose values are within relative 1e-9 of the generated "
        "ones. Negative edits (one per case): rename a gate, change a mode list (other mode / permuted), swap two adjacent statements "
        "sharing a mode that differ in (name, modes), change the version, change/add/remove the target: TemplateError (exactly) "
        "must be raised. Non-trivial = a parameter occurring in >=2 arguments with different affine forms, or >=1 commuting swap "
        "applied, or a negative edit. Distinct = SHA-1 of template text + instance text.")
ASSUMPTIONS = ["'inconsistent values' rejections are not asserted (the property does not list them)",
               "a program whose whole-valued float arguments are written as integer literals (4 for 4.0) has operations that compare "
               "equal to the instantiation's and is treated as the same instantiation"]
BUDGET = {"quick": (1600, 4), "thorough": (24000, 16)}

_OPS = ["Sgate", "Dgate", "BSgate", "Rgate", "Vac", "Xgate", "MeasureX"]


@st.composite
def affine(draw, pname):
    c1 = draw(st.sampled_from(["2", "3", "0.5", "1.5", "2.5", "4", "0.25", "7"]))
    c0 = draw(st.sampled_from(["1", "0.5", "2", "3.25", "10", "0.1"]))
    k1 = "int" if c1.isdigit() else "float"
    k0 = "int" if c0.isdigit() else "float"
    P = A.Param(pname)
    form = draw(st.integers(0, 6))
    if form == 0:
        return S.F1(P), "p"
    if form == 1:
        return S.F1(P, "-"), "-p"
    if form == 2:
        return A.Flat([A.Operand("", A.Num(k1, c1)), A.Operand("", P)], ["*"]), "c*p"
    if form == 3:
        return A.Flat([A.Operand("", P), A.Operand("", A.Num(k1, c1))], ["*"]), "p*c"
    if form == 4:
        return A.Flat([A.Operand("", A.Num(k1, c1)), A.Operand("", P), A.Operand("", A.Num(k0, c0))], ["*", draw(st.sampled_from(["+", "-"]))]), "c*p+d"
    if form == 5:
        return A.Flat([A.Operand("", A.Num(k0, c0)), A.Operand("", A.Num(k1, c1)), A.Operand("", P)], [draw(st.sampled_from(["+", "-"])), "*"]), "d+c*p"
    return A.Flat([A.Operand("", P), A.Operand("", A.Num(k1, c1))], ["/"]), "p/c"


@st.composite
def case(draw, tier):
    nops = draw(st.integers(1, 8))
    nm = draw(st.sampled_from([2, 2, 3, 3, 4, 5]))      # few modes -> dense dependency structure (diamonds, chains)
    params = draw(st.lists(S.ident(for_param=True), min_size=1, max_size=3, unique=True))
    items = []
    forms = {p: set() for p in params}
    pending = list(params)
    for i in range(nops):
        op = draw(st.sampled_from(_OPS))
        k = draw(st.sampled_from([1, 2, 2]))
        modes = draw(st.lists(st.integers(0, nm - 1), min_size=k, max_size=k, unique=True))
        nargs = draw(st.integers(0, 2))
        if pending and (nops - i) <= len(pending):
            nargs = max(nargs, 1)
        pos = []
        for _ in range(nargs):
            if pending and (draw(st.booleans()) or (nops - i) <= len(pending)):
                p = pending.pop(0)
            elif draw(st.integers(0, 2)) > 0:
                p = draw(st.sampled_from(params))
            else:
                p = None
            if p is None:
                pos.append(draw(st.one_of(S.num_float().map(S.F1), S.num_int().map(S.F1))))
            else:
                e, f = draw(affine(p))
                forms[p].add(f)
                pos.append(e)
        args = A.Args(pos, [], False) if (pos or draw(st.booleans())) else None
        items.append(A.Stmt(op, args, [S.F1(A.Num("int", str(m))) for m in modes], "[", "]"))
    if pending:
        # make sure every parameter occurs
        for p in pending:
            e, f = draw(affine(p))
            forms[p].add(f)
            items.append(A.Stmt("Rgate", A.Args([e], [], False), [S.F1(A.Num("int", str(draw(st.integers(0, 4)))))], "[", "]"))
    target = draw(st.one_of(st.none(), st.sampled_from(["gaussian", "X8_01", "fock"])))
    script = A.Script("tmpl", "1.0", A.Meta(target, None) if target else None, None, [], items)
    vals = {p: draw(st.one_of(st.floats(min_value=-5, max_value=5, allow_nan=False).filter(lambda x: abs(x) > 1e-2),
                              st.floats(min_value=-5, max_value=5, allow_nan=False).filter(lambda x: abs(x) > 1e-2),
                              st.sampled_from([1.5, 2.5, 0.5, -1.5, 3.0, 2.0, 0.25, 1.75, -0.5, 4.5, 6.0]),
                              st.sampled_from([1e6, -3.5e7, 2.25e9, 1e-6, -4e-5, 123456.789, 4.5678e-11, 1e-20, -3.3e-13, 7.7e-15]))) for p in params}
    swaps = draw(st.lists(st.integers(0, max(0, len(items) - 2)), max_size=10))
    if draw(st.booleans()):
        swaps = [0, 0] + swaps if False else [0] + swaps       # the two leading statements are swapped when they commute
    edit = None
    if draw(st.integers(0, 2)) == 0:
        edit = {"kind": draw(st.sampled_from(["gate", "modes", "modes", "modes-digits", "order", "order", "version", "target"])),
                "at": draw(st.integers(0, len(items) - 1)), "how": draw(st.integers(0, 5))}
    return {"script": script, "values": vals, "swaps": swaps, "edit": edit, "forms": {k: sorted(v) for k, v in forms.items()}}


@st.composite
def tdm_case(draw, tier):
    """tdm template with bare {x} arguments; the program passes p-arrays (possibly the same one for several parameters)."""
    n = draw(st.integers(1, 4))
    npar = draw(st.integers(1, 3))
    arrays = draw(st.lists(st.sampled_from(["p0", "p1", "p2", "p7"]), min_size=1, max_size=3, unique=True))
    assign = {"x%d" % k: draw(st.sampled_from(arrays)) for k in range(npar)}
    t_lines, p_lines = [], []
    pending = list(assign)
    for i in range(n):
        op = draw(st.sampled_from(["Sgate", "Rgate", "BSgate"]))
        modes = draw(st.lists(st.integers(0, 2), min_size=1, max_size=2, unique=True))
        ta, pa = [], []
        for _ in range(draw(st.integers(1, 2))):
            if pending or draw(st.booleans()):
                x = pending.pop(0) if pending else draw(st.sampled_from(sorted(assign)))
                ta.append("{%s}" % x)
                pa.append(assign[x])
            else:
                v = str(draw(st.sampled_from([0.0, 0.5, 1.25])))
                ta.append(v)
                pa.append(v)
        m = "[%s]" % ", ".join(map(str, modes))
        t_lines.append("%s(%s) | %s" % (op, ", ".join(ta), m))
        p_lines.append("%s(%s) | %s" % (op, ", ".join(pa), m))
    for x in pending:
        t_lines.append("Rgate({%s}) | 0" % x)
        p_lines.append("Rgate(%s) | 0" % assign[x])
    decls = ["float array %s =\n    %s" % (a, ", ".join(str(draw(st.sampled_from([0.1, 0.25, 1.5, 2.0, 3.5]))) for _ in range(3))) for a in arrays]
    head = "name tdmmatch\nversion 1.0\ntarget TD2 (shots=1)\ntype tdm (temporal_modes=3)\n"
    swaps = draw(st.lists(st.integers(0, max(0, len(p_lines) - 2)), max_size=4))
    return {"tdm": True, "template": head + "\n".join(t_lines) + "\n", "decls": head + "\n".join(decls) + "\n", "ops": p_lines,
            "assign": assign, "swaps": swaps}


def strategy(tier):
    return st.one_of(case(tier), case(tier), case(tier), case(tier), tdm_case(tier))


def check_tdm(c):
    import re as _re
    import numpy as np
    from blackbird.utils import match_template
    lines = list(c["ops"])
    applied = 0
    for i in c["swaps"]:
        if i + 1 < len(lines):
            ma = set(_re.findall(r"\d+", lines[i].split("|")[1]))
            mb = set(_re.findall(r"\d+", lines[i + 1].split("|")[1]))
            if not (ma & mb):
                lines[i], lines[i + 1] = lines[i + 1], lines[i]
                applied += 1
    p_text = c["decls"] + "\n".join(lines) + "\n"
    T, e = K.safe_loads(c["template"])
    P, e2 = K.safe_loads(p_text)
    if e is not None or e2 is not None:
        return Outcome(discard="load-failed")
    reuse = len(set(c["assign"].values())) < len(c["assign"])
    out = Outcome(key=c["template"] + "#####" + p_text, sample={"template": c["template"], "program": p_text},
                  classes=["tdm-p-arrays"] + (["same-p-array-for-several-parameters"] if reuse else []) + (["commuting-swaps"] if applied else []))
    out.nontrivial = reuse or applied > 0
    ctx = "template:\n%s\nprogram:\n%s" % (c["template"], p_text)
    try:
        res = match_template(T, P)
    except Exception as ex:
        out.violations.append(Violation("tdm|honest-instance-rejected|" + exc_bucket("match", ex), "match_template raised %s: %s\n%s" % (type(ex).__name__, ex, ctx)))
        return out
    if not isinstance(res, dict) or set(res) != set(c["assign"]):
        out.violations.append(Violation("tdm|result|parameter-set", "returned %r for parameters %r\n%s" % (res, sorted(c["assign"]), ctx)))
        return out
    for x, a in c["assign"].items():
        want = P.variables[a]
        got = res[x]
        if not isinstance(got, np.ndarray) or got.shape != want.shape or not np.array_equal(got, want):
            out.violations.append(Violation("tdm|result|value", "parameter %s (passed the p-array %s) matched to %r, the array is %r\n%s" % (x, a, got, want.tolist(), ctx)))
            return out
    return out


dump_case, load_case = K.dump_case, K.load_case


def _modes(st_):
    return [int(m.operands[0].prim.text) for m in st_.modes]


def build_instance(c):
    """(instance script, number of swaps applied, negative edit description or None)"""
    inst = substitute(c["script"], c["values"])
    items = list(inst.items)
    applied = 0
    for i in c["swaps"]:
        if i + 1 < len(items) and not (set(_modes(items[i])) & set(_modes(items[i + 1]))):
            items[i], items[i + 1] = items[i + 1], items[i]
            applied += 1
    name, version, target = inst.name, inst.version, inst.target
    desc = None
    tmpl_override = None
    e = c["edit"]
    if e:
        at = e["at"] % len(items)
        it = items[at]
        if e["kind"] == "gate":
            new = [o for o in _OPS + ["Kgate"] if o != it.op][e["how"] % len(_OPS)]
            items[at] = A.Stmt(new, it.args, it.modes, it.lbr, it.rbr)
            desc = "gate %d renamed %s -> %s" % (at, it.op, new)
        elif e["kind"] == "modes":
            ms = _modes(it)
            if len(ms) == 2 and e["how"] % 2 == 0:
                new = [ms[1], ms[0]]
            else:
                new = list(ms)
                new[0] = [m for m in range(6) if m not in ms][e["how"] % (6 - len(ms))]
            items[at] = A.Stmt(it.op, it.args, [S.F1(A.Num("int", str(m))) for m in new], it.lbr, it.rbr)
            desc = "modes of op %d changed %r -> %r" % (at, ms, new)
        elif e["kind"] == "modes-digits":
            # a two-mode gate moved to modes whose decimal digits concatenate to the same string ([1, 12] -> [11, 2]);
            # the template is rewritten to use [1, 12] there (wires 1 and 12 are used by nothing else)
            two = [i for i, x in enumerate(items) if len(_modes(x)) == 2]
            if two:
                at = two[e["how"] % len(two)]
                it = items[at]
                a_, b_ = [(1, 12), (21, 3), (1, 10), (11, 0)][e["how"] % 4]
                a2, b2 = {(1, 12): (11, 2), (21, 3): (2, 13), (1, 10): (11, 0), (11, 0): (1, 10)}[(a_, b_)]
                tmpl_override = (at, [a_, b_])
                items[at] = A.Stmt(it.op, it.args, [S.F1(A.Num("int", str(a2))), S.F1(A.Num("int", str(b2)))], it.lbr, it.rbr)
                desc = "modes of op %d are %r in the template and %r in the program (same digit string)" % (at, [a_, b_], [a2, b2])
        elif e["kind"] == "order":
            for off in range(len(items) - 1):
                i = (at + off) % (len(items) - 1)
                a, b = items[i], items[i + 1]
                if set(_modes(a)) & set(_modes(b)) and (a.op, _modes(a)) != (b.op, _modes(b)):
                    items[i], items[i + 1] = b, a
                    desc = "adjacent dependent ops %d,%d swapped" % (i, i + 1)
                    break
        elif e["kind"] == "version":
            version = ["1.1", "0.9", "2.0", "1.00"][e["how"] % 4]
            desc = "version -> %s" % version
        elif e["kind"] == "target":
            cur = target.name if target else None
            new = [t for t in [None, "gaussian", "X8_01", "fock", "other"] if t != cur][e["how"] % 4]
            target = A.Meta(new, None) if new else None
            desc = "target %r -> %r" % (cur, new)
    return A.Script(name, version, target, inst.ptype, [], items), applied, desc, tmpl_override


def check(c):
    from blackbird.utils import match_template, TemplateError
    if c.get("tdm"):
        return check_tdm(c)
    try:
        inst_script, applied, desc, override = build_instance(c)
        tmpl = c["script"]
        if override is not None:
            titems = list(tmpl.items)
            it = titems[override[0]]
            titems[override[0]] = A.Stmt(it.op, it.args, [S.F1(A.Num("int", str(m))) for m in override[1]], it.lbr, it.rbr)
            tmpl = A.Script(tmpl.name, tmpl.version, tmpl.target, tmpl.ptype, [], titems)
        t_text = render.render(tmpl)
        i_text = render.render(inst_script)
    except render.RenderError as e:
        raise HarnessError(str(e))
    if c["edit"] and desc is None:
        return Outcome(discard="negative-edit-not-applicable")
    T, e = K.safe_loads(t_text)
    P, e2 = K.safe_loads(i_text)
    if e is not None or e2 is not None:
        return Outcome(discard="load-failed")
    multi = any(len(f) >= 2 for f in c["forms"].values())
    out = Outcome(key=t_text + "\n#####\n" + i_text, sample={"template": t_text, "program": i_text, "edit": desc, "values": c["values"]})
    out.classes = ["negative:" + c["edit"]["kind"]] if desc else ["positive"] + (["commuting-swaps"] if applied else []) + (["multi-form-parameter"] if multi else [])
    out.nontrivial = bool(desc) or applied > 0 or multi
    try:
        res = match_template(T, P)
        err = None
    except Exception as ex:
        res, err = None, ex
    ctx = "template:\n%s\nprogram:\n%s\nvalues: %r" % (t_text, i_text, c["values"])
    if desc:
        if err is None:
            out.violations.append(Violation("negative-accepted|" + c["edit"]["kind"], "%s, but match_template returned %r\n%s" % (desc, res, ctx)))
        elif not isinstance(err, TemplateError):
            out.violations.append(Violation("negative-wrong-exception|" + exc_bucket("match", err), "%s: expected TemplateError, got %s: %s\n%s" % (
                desc, type(err).__name__, err, ctx)))
        return out
    if err is not None:
        out.violations.append(Violation("honest-instance-rejected|" + exc_bucket("match", err) + "|" + _msg_class(err),
                                        "match_template raised %s: %s (%d commuting swaps applied)\n%s" % (type(err).__name__, err, applied, ctx)))
        return out
    if not isinstance(res, dict) or set(res) != set(c["values"]):
        out.violations.append(Violation("result|parameter-set", "returned %r, template parameters %r\n%s" % (res, sorted(c["values"]), ctx)))
        return out
    scale = _offset_scales(c["script"])
    for k, v in c["values"].items():
        try:
            got = float(res[k])
        except Exception:
            out.violations.append(Violation("result|non-numeric", "parameter %s matched to %r\n%s" % (k, res[k], ctx)))
            return out
        # "reproduces the program's arguments": an argument c1*p + c0 determines p only up to rounding of the argument
        # itself, i.e. up to about eps*|c0/c1| (1e-13 * that scale is far inside what reproduces the argument to 1e-9)
        if abs(got - v) > 1e-9 * abs(v) + 1e-13 * scale.get(k, 0.0):
            out.violations.append(Violation("result|value", "parameter %s matched to %r, generated value %r\n%s" % (k, got, v, ctx)))
            return out
    # the same program with every whole-valued float argument written as an integer literal (4 instead of 4.0): its
    # operations compare equal to the instance's, so it is the same instantiation
    try:
        items2, changed = [], 0
        for it, o in zip(inst_script.items, P.operations):
            if it.args is None:
                items2.append(it)
                continue
            pos2 = []
            for a_, v_ in zip(it.args.pos, o.get("args", [])):
                if isinstance(v_, float) and not isinstance(v_, bool) and float(v_).is_integer() and abs(v_) < 1e9 and not (isinstance(a_, A.Flat) and len(a_.operands) == 1
                                                                                   and isinstance(a_.operands[0].prim, A.Num)):
                    pos2.append(S.F1(A.Num("int", str(abs(int(v_)))), "-" if v_ < 0 else ""))
                    changed += 1
                else:
                    pos2.append(a_)
            items2.append(A.Stmt(it.op, A.Args(pos2, it.args.kwargs, False), it.modes, it.lbr, it.rbr))
        if changed:
            i2_text = render.render(A.Script(inst_script.name, inst_script.version, inst_script.target, inst_script.ptype, [], items2))
            P2, e3 = K.safe_loads(i2_text)
            if e3 is None and P2.operations == P.operations:
                out.classes.append("whole-valued-arguments-as-int-literals")
                out.nontrivial = True
                ctx2 = "template:\n%s\nprogram:\n%s\nvalues: %r" % (t_text, i2_text, c["values"])
                try:
                    r3 = match_template(T, P2)
                except Exception as ex:
                    out.violations.append(Violation("int-literal-instance-rejected|" + exc_bucket("match", ex) + "|" + _msg_class(ex),
                                                    "match_template raised %s: %s\n%s" % (type(ex).__name__, ex, ctx2)))
                    return out
                if not isinstance(r3, dict) or set(r3) != set(c["values"]) or any(
                        abs(float(r3[k]) - v) > 1e-9 * abs(v) + 1e-13 * scale.get(k, 0.0) for k, v in c["values"].items()):
                    out.violations.append(Violation("int-literal-instance|result", "returned %r for values %r\n%s" % (r3, c["values"], ctx2)))
                    return out
    except render.RenderError as e:
        raise HarnessError(str(e))
    # the same law for an instance made by the template itself, after the template has been matched once
    try:
        inst = T(**c["values"])
        res2 = match_template(T, inst)
    except Exception as ex:
        out.violations.append(Violation("own-instance-rejected|" + exc_bucket("match", ex) + "|" + _msg_class(ex),
                                        "match_template(T, T(**values)) raised %s: %s\n%s" % (type(ex).__name__, ex, ctx)))
        return out
    if not isinstance(res2, dict) or set(res2) != set(c["values"]) or any(
            abs(float(res2[k]) - v) > 1e-9 * abs(v) + 1e-13 * scale.get(k, 0.0) for k, v in c["values"].items()):
        out.violations.append(Violation("own-instance|result", "match_template(T, T(**values)) returned %r for values %r\n%s" % (res2, c["values"], ctx)))
    return out


def _offset_scales(script):
    """parameter -> max |c0/c1| over the affine arguments c1*p + c0 it occurs in."""
    from ..model import refsem, numeric as N
    out = {}
    for it in script.items:
        if it.args is None:
            continue
        for v in it.args.pos:
            if not isinstance(v, A.Flat):
                continue
            ps = {p.name for p in A.walk_prims(v) if isinstance(p, A.Param)}
            if len(ps) != 1:
                continue
            (name,) = ps
            try:
                f0 = refsem.ev(v, {}, {("p", name): N.V("real", N.mpf(0), 0)}).as_mp()
                f1 = refsem.ev(v, {}, {("p", name): N.V("real", N.mpf(1), 0)}).as_mp()
            except Exception:
                continue
            c1 = f1 - f0
            if c1 != 0:
                out[name] = max(out.get(name, 0.0), float(abs(f0 / c1)))
    return out


def _msg_class(e):
    m = str(e)
    for k in ("inconsistent", "Not the same program", "version", "target", "one template parameter"):
        if k in m:
            return k.replace(" ", "-")
    return "other"

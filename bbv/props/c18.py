"""C18 -- comments, blank lines, spacing and line-ending style do not change the program."""
from hypothesis import strategies as st

from ..model import ast as A, strategies as S, render
from ..run import Outcome, Violation, exc_bucket, HarnessError, sha
from .. import canon, ref
from . import common as K

ID = "C18"
RULE = ("Hypothesis constructs a script model (all constructs incl. arrays, loops, parameters, registers, options, tdm) and an "
        "independent Layout plan: per line ending LF/CRLF/CR (uniform and mixed); end-of-line comments (with and without a preceding "
        "space, arbitrary text) on any line including array rows and loop lines; own-line comments (at column 0 or after 1-3 spaces) "
        "and blank lines (empty or 1-3 spaces) before the metadata, between metadata lines, between top-level items and between "
        "loop-body statements (never inside array bodies, never between a loop header and its first body line); 0-3 extra spaces at "
        "every token boundary inside a line and 0-3 at line ends (never next to indentation); each indentation as a tab or four "
        "spaces; final newline present or absent. Oracle (metamorphic): canonical content of loads(variant) equals that of "
        "loads(canonical rendering) bit for bit; the reference lexer must give both texts the same token sequence apart from NEWLINE "
        "(self-check of the transformer). Non-trivial = >=3 different edit kinds and the script has an array or a loop. "
        "Distinct = SHA-1 of the variant text."
        " A third of the ASCII variants goes through blackbird.load (a file whose earlier version was loaded from the"
        " same path just before); strings contain characters that are special outside strings (#, braces, keywords,"
        " four spaces).")
ASSUMPTIONS = ["the canonical rendering loads (otherwise the case is discarded and counted)"]
BUDGET = {"quick": (1500, 4), "thorough": (40000, 16)}

_CMT_CHARS = st.text(alphabet=st.one_of(st.characters(min_codepoint=32, max_codepoint=126),
                                        st.sampled_from(["\t", "\u00e9", "#", '"', " ", "\x0b", "\x0c", "\x1c", "\x1d", "\x1e", "\x85", "\u2028", "\u2029", "\xa0"])), max_size=12)
# (comments with statement-looking text after a character that some libraries treat as a line break)
_CMT = st.one_of(_CMT_CHARS, _CMT_CHARS, st.sampled_from([" Vac | 1", "\x0cVac | 1", "\u2028Vac | 2", "\x85int x = 1", "\x0b\x1cMeasureX | 3", " a \x1eG(1) | 0"]))


@st.composite
def layout(draw, nlines):
    style = draw(st.sampled_from(["lf", "crlf", "cr", "mixed", "mixed"]))
    if style == "mixed":
        newlines = draw(st.lists(st.sampled_from(["\n", "\r\n", "\r"]), min_size=2, max_size=7))
    else:
        newlines = [{"lf": "\n", "crlf": "\r\n", "cr": "\r"}[style]]
    eol = {}
    for i in draw(st.lists(st.integers(0, max(0, nlines - 1)), max_size=4, unique=True)):
        eol[i] = draw(_CMT)
    blank = {}
    for i in draw(st.lists(st.integers(0, nlines), max_size=4, unique=True)):
        blank[i] = draw(st.lists(st.one_of(st.sampled_from(["", " ", "  ", "   "]),
                                           st.builds(lambda sp, t: sp + "#" + t, st.sampled_from(["", " ", "  ", "   "]), _CMT)),
                                 min_size=1, max_size=3))
    return {
        "gaps": draw(st.lists(st.integers(0, 3), min_size=1, max_size=7)),
        "newlines": newlines,
        "indents": draw(st.lists(st.sampled_from(["\t", "    "]), min_size=1, max_size=4)),
        "eol": eol, "eol_space": draw(st.lists(st.integers(0, 3), min_size=1, max_size=3)),
        "trailing": draw(st.lists(st.integers(0, 3), min_size=1, max_size=4)),
        "blank": blank, "final_newline": draw(st.booleans()), "blank_after_meta": draw(st.integers(0, 2)),
        "style": style,
    }


@st.composite
def case(draw, tier):
    n = 10 if tier != "quick" else 6
    cfg = draw(st.sampled_from([S.Cfg(max_items=n, depth=1, ascii_only=False), S.Cfg(max_items=n, depth=1, params=True, regs=True, ascii_only=False),
                                S.Cfg(max_items=n, depth=1, tdm=True, params=True, sym_vars=False, ascii_only=False),
                                S.Cfg(max_items=n, depth=2, min_loops=1, ascii_only=False)]))
    sc = draw(S.script(cfg))
    nlines = len(render.lines(sc)[0])
    return {"script": sc, "layout": draw(layout(nlines))}


def strategy(tier):
    return case(tier)


dump_case, load_case = K.dump_case, K.load_case


def to_layout(d):
    return render.Layout(gaps=d["gaps"], newlines=d["newlines"], indents=d["indents"],
                         eol_comments={int(k): v for k, v in d["eol"].items()}, eol_comment_space=d["eol_space"],
                         trailing=d["trailing"], blank_before={int(k): v for k, v in d["blank"].items()},
                         final_newline=d["final_newline"], blank_after_meta=d["blank_after_meta"])


def _sig(text):
    return [(t.name, t.text if t.name != "TAB" else "<indent>") for t in ref.ref_tokens(text) if t.name != "NEWLINE"]


def check(c):
    sc, lay = c["script"], c["layout"]
    try:
        canonical = render.render(sc)
        variant = render.render(sc, to_layout(lay))
    except render.RenderError as e:
        raise HarnessError(str(e))
    # self-check of the transformer: under the grammar both texts have the same tokens apart from NEWLINE.
    # (If it fails, the layout edits are NOT insignificant under the current blackbird.g4 -- on the unchanged
    # tree this never happens; the behavioural comparison below then decides.)
    lexical_change = _sig(canonical) != _sig(variant)
    p0, e0 = K.safe_loads(canonical)
    if e0 is not None:
        return Outcome(discard="canonical-load-failed:" + type(e0).__name__)
    feats, _ = K.features(sc)
    edits = set()
    if lay["style"] != "lf":
        edits.add("line-endings:" + lay["style"])
    if lay["eol"]:
        edits.add("eol-comment")
    if any(any("#" in b for b in v) for v in lay["blank"].values()):
        edits.add("comment-line")
    if any(any("#" not in b for b in v) for v in lay["blank"].values()):
        edits.add("blank-line")
    if any(g > 0 for g in lay["gaps"]):
        edits.add("token-gaps")
    if any(t > 0 for t in lay["trailing"]):
        edits.add("trailing-spaces")
    if "\t" in lay["indents"] and (feats & {"array", "loop"}):
        edits.add("tab-indent")
    if len(set(lay["indents"])) > 1 and (feats & {"array", "loop"}):
        edits.add("mixed-indent")
    if not lay["final_newline"]:
        edits.add("no-final-newline")
    out = Outcome(key=variant, classes=sorted(edits) + (["grammar-tokenises-variant-differently"] if lexical_change else []),
                  sample={"variant": variant, "canonical": canonical})
    out.nontrivial = len(edits) >= 3 and bool(feats & {"array", "loop"})
    if variant.isascii() and int(sha(variant)[:2], 16) % 3 == 0:
        # the variant through the file entry point (a file whose earlier version was loaded from the same path just before)
        out.classes.append("load(path)")
        p1, e1 = K.safe_load_text_via_file(variant)
    else:
        p1, e1 = K.safe_loads(variant)
    ctx = "variant text: %r\ncanonical text:\n%s" % (variant, canonical)
    if e1 is not None:
        out.violations.append(Violation("variant-rejected|" + exc_bucket("load", e1) + "|" + _blame(sc, lay),
                                        "layout variant refused: %s: %s\nedits: %s\n%s" % (type(e1).__name__, e1, sorted(edits), ctx)))
        return out
    s0, s1 = canon.snapshot(p0), canon.snapshot(p1)
    if s0 != s1:
        diff = [k for k in s0 if s0[k] != s1.get(k)]
        out.violations.append(Violation("variant-differs|" + ",".join(diff) + "|" + _blame(sc, lay),
                                        "layout variant denotes another program (differs in %s)\nedits: %s\n%s\ncanonical: %s\nvariant:   %s" % (
                                            diff, sorted(edits), ctx, str({k: s0[k] for k in diff})[:800], str({k: s1[k] for k in diff})[:800])))
    return out


def _blame(sc, lay):
    """Smallest single edit kind that already reproduces the difference (root-cause label)."""
    base = {"gaps": [0], "newlines": ["\n"], "indents": ["    "], "eol": {}, "eol_space": [1], "trailing": [0], "blank": {},
            "final_newline": True, "blank_after_meta": 1, "style": "lf"}
    canonical = render.render(sc)
    p0, _ = K.safe_loads(canonical)
    s0 = canon.snapshot(p0) if p0 is not None else None
    for key in ("newlines", "indents", "eol", "blank", "gaps", "trailing", "final_newline", "blank_after_meta"):
        trial = dict(base)
        trial[key] = lay[key]
        if key == "eol":
            trial["eol_space"] = lay["eol_space"]
        try:
            text = render.render(sc, to_layout(trial))
        except render.RenderError:
            continue
        p, e = K.safe_loads(text)
        if e is not None or (s0 is not None and canon.snapshot(p) != s0):
            return key
    return "combination"

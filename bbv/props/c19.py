"""C19 -- loading and serialising are deterministic across runs and hash seeds."""
import hashlib
import json
import os
import shutil
import subprocess
import sys
import tempfile

import hypothesis
from hypothesis import given, settings, HealthCheck, Phase, strategies as st

from ..model import ast as A, strategies as S, render, refsem
from ..run import Outcome, Violation, HarnessError, sha, _derive_seed
from . import common as K
from . import c07

ID = "C19"
RULE = ("A corpus of N scripts is generated once from VERIF_SEED with Hypothesis (emphasis: several template parameters or measured "
        "registers in one argument, overlapping parameter names such as a/ab/e, templates instantiated through includes acting on "
        "several non-sorted modes (file trees), tdm programs, options). K child interpreters started with PYTHONHASHSEED in "
        "{0,1,2,3,...} each load every script and emit the canonical content (registers of a transform sorted with its function "
        "re-ordered accordingly -- the documented freedom -- and parameters sorted) and the dumps() text (or the exception type and "
        "message). Oracle (configuration differential): all K outcomes must be identical per script. Differing scripts are reduced by "
        "batched item removal and re-run. The children are started (and import blackbird) in three different directories; for file "
        "trees the main script is additionally given to loads() as text with the tree root as working directory, and each child "
        "serialises every program twice (the second text must equal the first). Non-trivial = script with >=2 symbols in one argument or an include over >=2 modes. "
        "Distinct = SHA-1 of the script text(s). evaluations = N scripts x K interpreters.")
RULE += (" About 4% of the corpus are include trees in which several files declare the same program name (whichever file provides "
         "the operation, it must be the same one under every hash seed).")
ASSUMPTIONS = ["hash randomisation is the only configuration varied; each child is a fresh interpreter"]
BUDGET = {"quick": (600, 1), "thorough": (4000, 4)}
KSEEDS = {"quick": 8, "thorough": 32}


def _cfgs():
    return [S.Cfg(max_items=6, depth=1, params=True, ascii_only=True), S.Cfg(max_items=6, depth=1, regs=True, ascii_only=True),
            S.Cfg(max_items=6, depth=1, params=True, regs=True, ascii_only=True),
            S.Cfg(max_items=6, depth=1, tdm=True, params=True, sym_vars=False, ascii_only=True),
            S.Cfg(max_items=5, depth=1, params=True, ascii_only=True, names=["a", "ab", "e", "b", "E"])]


@st.composite
def same_name_tree(draw):
    """Several included files declare the same program name (directly and through a wrapper), with different bodies on the same
    number of modes; the main script applies that name. Whichever file provides the operation, it is the same one in every process."""
    n = draw(st.integers(2, 4))
    paths = draw(st.lists(st.sampled_from(["a.xbb", "b.xbb", "lib/a.xbb", "lib/c.xbb", "lib/deep/d.xbb", "zeta.xbb", "other/e.xbb", "m.xbb"]),
                          min_size=n, max_size=n, unique=True))
    nm = draw(st.integers(1, 3))
    modes = draw(st.lists(st.integers(0, 40), min_size=nm, max_size=nm, unique=True))
    files = {}
    for i, pth in enumerate(paths):
        gate = ["Sgate", "Rgate", "Dgate", "Xgate"][i]
        body = "".join("%s(%s) | %d\n" % (gate, "0.%d" % (i + 1), m) for m in modes)
        files[pth] = "name %s\nversion 1.0\n%s" % (draw(st.sampled_from(["sub", "sub", "Sub2"])), body)
    incs = list(paths)
    if draw(st.booleans()):
        # one of the files is reached through a wrapper only
        hidden = incs.pop(draw(st.integers(0, len(incs) - 1)))
        files["wrap.xbb"] = 'name wrap\nversion 1.0\ninclude "%s"\nVac | 0\n' % hidden
        incs.insert(draw(st.integers(0, len(incs))), "wrap.xbb")
    call = "[%s]" % ", ".join(str(50 + j) for j in range(nm))
    main = "name main\nversion 1.0\n" + "".join('include "%s"\n' % i for i in incs) + "sub | %s\nSub2 | %s\n" % (call, call)
    files["main.xbb"] = main
    return {"kind": "rawfiles", "files": files, "main": "main.xbb"}


@st.composite
def entry(draw):
    k = draw(st.integers(0, 7))
    if k == 0 and draw(st.integers(0, 2)) == 0:
        return draw(same_name_tree())
    if k <= 1:
        c = draw(c07.case("quick"))
        return {"kind": "files", "c07": c}
    sc = draw(S.script(_cfgs()[k % 5]))
    # make multi-symbol arguments frequent
    if draw(st.booleans()):
        syms = []
        for it in sc.items:
            pass
        names = sorted({p.name for it in sc.items if isinstance(it, A.Stmt) and it.args for v in it.args.pos if isinstance(v, A.Flat)
                        for p in A.walk_prims(v) if isinstance(p, A.Param)})
        regs = sorted({p.text for it in sc.items if isinstance(it, A.Stmt) and it.args for v in it.args.pos if isinstance(v, A.Flat)
                       for p in A.walk_prims(v) if isinstance(p, A.Reg)})
        pool = [A.Param(n) for n in names] if names else [A.Reg(r) for r in regs]
        if pool:
            # top the pool up to four distinct symbols of the same kind
            k_ = 0
            while len(pool) < 4 and k_ < 40:
                k_ += 1
                cand = A.Param(pool[0].name + "b" * k_) if isinstance(pool[0], A.Param) else A.Reg("q%d" % (int(pool[0].text[1:]) + 3 * k_))
                key = cand.name if isinstance(cand, A.Param) else int(cand.text[1:])
                if key not in [(x.name if isinstance(x, A.Param) else int(x.text[1:])) for x in pool]:
                    pool.append(cand)
        if len(pool) >= 2 and draw(st.integers(0, 3)) == 0:
            # a non-linear polynomial with float coefficients: c1*s0**2*s1 + c2*s0*s1 + c3*s0 (evaluation order matters at the last bit)
            cs = [A.Operand("", A.Num("float", draw(st.sampled_from(["0.3", "0.7", "0.2", "1.1", "0.9", "2.3", "0.01"])))) for _ in range(3)]
            s0, s1 = A.Operand("", pool[0]), A.Operand("", pool[1])
            two = A.Operand("", A.Num("int", draw(st.sampled_from(["2", "3"]))))
            poly = A.Flat([cs[0], s0, two, s1, cs[1], s0, s1, cs[2], s0], ["*", "**", "*", "+", "*", "*", "+", "*"])
            kw = [["k", A.Flat([cs[1], s1, two, s0, cs[2], s1, s0], ["*", "**", "*", "-", "*", "*"])]] if draw(st.booleans()) else []
            sc.items.append(A.Stmt("Poly", A.Args([poly], kw, False), [S.F1(A.Num("int", "0"))], "", ""))
        elif len(pool) >= 3 and draw(st.integers(0, 3)) > 0:
            # several symbols in a nested expression: (s0 + s1)*s2 - s3, s0*s1 + s2*s3 ...
            sy = [A.Operand("", x) for x in pool[:4]]
            last = sy[3] if len(sy) > 3 else sy[0]
            nested = draw(st.sampled_from([
                A.Flat([A.Operand("", A.Paren(A.Flat([sy[0], sy[1]], ["+"]))), sy[2], last], ["*", "-"]),
                A.Flat([sy[0], sy[1], sy[2], last], ["*", "+", "*"]),
                A.Flat([last, A.Operand("", A.Paren(A.Flat([sy[2], sy[0]], ["-"]))), sy[1]], ["*", "+"])]))
            kw = [["k", A.Flat([sy[2], A.Operand("", A.Paren(A.Flat([sy[1], sy[0]], ["-"])))], ["*"])]] if draw(st.booleans()) else []
            sc.items.append(A.Stmt("Nested", A.Args([nested], kw, False), [S.F1(A.Num("int", "0"))], "", ""))
        elif len(pool) >= 2:
            ops = [A.Operand("", pool[0]), A.Operand("", pool[1])] + ([A.Operand("", pool[2])] if len(pool) > 2 else [])
            e = A.Flat(ops, [draw(st.sampled_from(["*", "+", "-"])) for _ in ops[1:]])
            kw = [["k", A.Flat(list(reversed(ops)), [draw(st.sampled_from(["*", "+", "-"])) for _ in ops[1:]])]] if draw(st.booleans()) else []
            sc.items.append(A.Stmt("Multi", A.Args([e], kw, False), [S.F1(A.Num("int", "0"))], "", ""))
    return {"kind": "script", "script": sc}


def realise(e):
    """entry -> corpus record {id, text | files+main, nontrivial} or None when outside the domain."""
    if e["kind"] == "rawfiles":
        key = "\n".join("### %s\n%s" % kv for kv in sorted(e["files"].items()))
        return {"id": sha(key), "files": e["files"], "main": e["main"], "nontrivial": True, "key": key}
    if e["kind"] == "files":
        c = e["c07"]
        try:
            texts, ref, multi = c07.build(c, "<ROOT>")
        except (refsem.OutOfDomain, refsem.RefModelError, render.RenderError):
            return None
        key = "\n".join("### %s\n%s" % kv for kv in sorted(texts.items()))
        return {"id": sha(key), "files": texts, "main": c["main"], "nontrivial": len(ref.modes) >= 2, "key": key}
    sc = e["script"]
    try:
        K.reference(sc)
        text = render.render(sc)
    except (K.Discard, render.RenderError):
        return None
    multi = False
    for st_ in A.statements(sc):
        if st_.args is None:
            continue
        for v in list(st_.args.pos) + [v for _, v in st_.args.kwargs]:
            if isinstance(v, A.Flat):
                syms = {(type(p).__name__, getattr(p, "name", getattr(p, "text", None))) for p in A.walk_prims(v) if isinstance(p, (A.Param, A.Reg))}
                if len(syms) >= 2:
                    multi = True
    return {"id": sha(text), "text": text, "nontrivial": multi, "key": text}


def run_children(corpus, k):
    d = tempfile.mkdtemp(prefix="bbv-c19-run-")
    try:
        cpath = os.path.join(d, "corpus.json")
        with open(cpath, "w") as f:
            json.dump([{kk: v for kk, v in e.items() if kk in ("id", "text", "files", "main")} for e in corpus], f)
        procs = []
        for hs in range(k):
            env = dict(os.environ)
            env["PYTHONHASHSEED"] = str(hs)
            env["PYTHONPATH"] = os.pathsep.join(os.path.abspath(x) for x in env.get("PYTHONPATH", "").split(os.pathsep) if x)
            outp = os.path.join(d, "out%d.json" % hs)
            start = os.path.join(d, "start%d" % (hs % 3))       # the children are started in different directories
            os.makedirs(start, exist_ok=True)
            procs.append((hs, outp, subprocess.Popen([sys.executable, "-W", "ignore", "-m", "bbv.hashchild", cpath, outp], env=env, cwd=start,
                                                     stdout=subprocess.PIPE, stderr=subprocess.STDOUT, text=True)))
            if len(procs) % 16 == 0:
                for _, _, pr in procs[-16:]:
                    pr.wait()
        results = {}
        for hs, outp, pr in procs:
            so, _ = pr.communicate()
            if pr.returncode != 0 or not os.path.exists(outp):
                raise HarnessError("hash-seed child %d failed: %s" % (hs, so[-1500:]))
            results[hs] = json.load(open(outp))
        return results
    finally:
        shutil.rmtree(d, ignore_errors=True)


def differing(corpus, results):
    """id -> (what differs, seeds a, b, outcome a, outcome b)"""
    out = {}
    seeds = sorted(results)
    for e in corpus:
        base = results[seeds[0]][e["id"]]
        if base.get("dumps_repeatable") is False:
            out[e["id"]] = ("second-serialisation-in-one-process", seeds[0], seeds[0], base, base)
            continue
        for hs in seeds[1:]:
            o = results[hs][e["id"]]
            if o != base:
                if ("exc" in o) != ("exc" in base) or o.get("exc") != base.get("exc"):
                    what = "outcome-kind"
                elif "exc" in o:
                    what = "error-message"
                elif o.get("loads_in_root") != base.get("loads_in_root") and o.get("content") == base.get("content"):
                    what = "text-load-in-root-directory"
                elif o.get("content") != base.get("content"):
                    diff = [k_ for k_ in base["content"] if base["content"][k_] != o["content"].get(k_)]
                    what = "content:" + ",".join(diff)
                else:
                    what = "dumps-text"
                out[e["id"]] = (what, seeds[0], hs, base, o)
                break
    return out


def reduce_entry(e, k, budget=6):
    """Batched single-item removal while the difference persists (script entries only)."""
    if "text" not in e or "model" not in e:
        return e
    cur = e
    for _ in range(budget):
        sc = cur["model"]
        variants = []
        for i in range(len(sc.items)):
            v = A.Script(sc.name, sc.version, sc.target, sc.ptype, [], sc.items[:i] + sc.items[i + 1:])
            try:
                t = render.render(v)
            except render.RenderError:
                continue
            variants.append({"id": sha(t), "text": t, "model": v, "nontrivial": cur["nontrivial"], "key": t})
        if not variants:
            break
        res = run_children(variants, min(k, 4) if k <= 4 else 8)
        diff = differing(variants, res)
        if not diff:
            break
        cur = next(v for v in variants if v["id"] in diff)
    return cur


def run_shard(tier, seed, shard, nshards, examples, known):
    k = KSEEDS[tier]
    collected = []

    def body(e):
        collected.append(e)

    test = given(entry())(body)
    test = hypothesis.seed(_derive_seed(seed, shard, 0))(test)
    test = settings(max_examples=examples, database=None, deadline=None, suppress_health_check=list(HealthCheck),
                    phases=(Phase.generate,))(test)
    test()
    corpus, discards, seen = [], 0, set()
    for e in collected:
        r = realise(e)
        if r is None:
            discards += 1
            continue
        if r["id"] in seen:
            continue
        seen.add(r["id"])
        if e["kind"] == "script":
            r["model"] = e["script"]
        corpus.append(r)
    if not corpus:
        raise HarnessError("C19: empty corpus")
    results = run_children(corpus, k)
    diff = differing(corpus, results)
    res = dict(evaluations=len(corpus) * k, discards={"outside-domain": discards} if discards else {}, classes={}, nontrivial=[],
               samples=[], excluded={}, buckets={}, notes={"corpus_scripts": len(corpus), "interpreters": k,
                                                           "hash_seeds": list(range(k))}, harness_errors=[])
    res["nontrivial"] = [e["id"] for e in corpus if e["nontrivial"]]
    res["classes"] = {"files-with-includes": sum(1 for e in corpus if "files" in e), "scripts": sum(1 for e in corpus if "text" in e),
                      "multi-symbol-argument-or-multi-mode-include": len(res["nontrivial"])}
    res["samples"] = [{"script": e.get("text") or e.get("files")} for e in corpus if e["nontrivial"]][:3]
    by_bucket = {}
    for e in sorted(corpus, key=lambda x: len(x["key"])):
        if e["id"] in diff:
            what = diff[e["id"]][0]
            by_bucket.setdefault("hash-seed-dependent|" + what, e)
    for b, e in by_bucket.items():
        if b in known:
            res["excluded"][b] = res["excluded"].get(b, 0) + 1
            continue
        small = reduce_entry(e, k)
        one = run_children([small], max(k, 8))
        d2 = differing([small], one)
        if not d2:
            small, d2 = e, {e["id"]: diff[e["id"]]}
        what, s1, s2, o1, o2 = d2[small["id"]]
        case = {kk: v for kk, v in small.items() if kk in ("id", "text", "files", "main")}
        case["seeds"] = [s1, s2]
        res["buckets"][b] = {"detail": "outcomes differ between PYTHONHASHSEED=%d and %d (%s)\nseed %d: %s\nseed %d: %s\nscript:\n%s" % (
            s1, s2, what, s1, _short(o1), s2, _short(o2), small.get("text") or json.dumps(small.get("files"), indent=1)),
            "case": case, "size": len(small["key"]), "seed": seed, "shard": shard}
    return res


def _short(o):
    if "exc" in o:
        return "%s: %s" % (o["exc"], o.get("msg"))
    return "dumps=%r content=%s" % (o.get("dumps"), json.dumps(o.get("content"))[:500])


def dump_case(c):
    return c


def load_case(j):
    return j


def check(case):
    """Replay: run the stored script under 8 hash seeds (and the two recorded ones)."""
    e = dict(case)
    e["key"] = e.get("text") or json.dumps(e.get("files"))
    res = run_children([e], 8)
    d = differing([e], res)
    out = Outcome(key=e["key"])
    if d:
        what, s1, s2, o1, o2 = d[e["id"]]
        out.violations.append(Violation("hash-seed-dependent|" + what, "outcomes differ between PYTHONHASHSEED=%d and %d\nseed %d: %s\nseed %d: %s" % (
            s1, s2, s1, _short(o1), s2, _short(o2))))
    return out

"""Helpers shared by the property modules."""
import os
import warnings

from hypothesis import strategies as st

from ..model import ast as A, render, refsem, strategies as S
from ..model.numeric import OutOfDomain
from ..model import numeric as N
from ..run import Outcome, Violation, exc_bucket, HarnessError
from ..valuecmp import IllConditioned


def safe_loads(text):
    """(program, exception) of blackbird.loads with warnings silenced."""
    import blackbird
    try:
        with warnings.catch_warnings():
            warnings.simplefilter("ignore")
            return blackbird.loads(text), None
    except RecursionError:
        raise
    except Exception as e:     # noqa: the package's contract is "raises on invalid input"
        return None, e


def safe_load_file(path):
    import blackbird
    try:
        with warnings.catch_warnings():
            warnings.simplefilter("ignore")
            return blackbird.load(path), None
    except RecursionError:
        raise
    except Exception as e:
        return None, e


_SAME_PATH = {}


def safe_load_text_via_file(text):
    """load() of a file whose earlier version was loaded from the same path just before (an edited script loaded again)."""
    import atexit, shutil, tempfile
    if "d" not in _SAME_PATH:
        _SAME_PATH["d"] = tempfile.mkdtemp(prefix="bbv-samepath-")
        atexit.register(shutil.rmtree, _SAME_PATH["d"], True)
    path = os.path.join(_SAME_PATH["d"], "program.xbb")
    # an earlier version of the file is loaded first, so that the outcome of the case does not depend on earlier cases
    with open(path, "w", encoding="ascii", newline="") as f:
        f.write("name previous\nversion 1.0\nVac | 0\n")
    safe_load_file(path)
    with open(path, "w", encoding="ascii", newline="") as f:
        f.write(text)
    return safe_load_file(path)


def safe_dumps(p):
    import blackbird
    try:
        with warnings.catch_warnings():
            warnings.simplefilter("ignore")
            return blackbird.dumps(p), None
    except RecursionError:
        raise
    except Exception as e:
        return None, e


@st.composite
def layout_light(draw):
    """Spacing only (the full layout plan belongs to C18)."""
    return {"gaps": draw(st.lists(st.integers(0, 2), min_size=1, max_size=5)),
            "indents": draw(st.lists(st.sampled_from(["    ", "\t"]), min_size=1, max_size=3)),
            "final_newline": draw(st.booleans()),
            "blank_after_meta": draw(st.integers(0, 2))}


def to_layout(d):
    return render.Layout(gaps=d["gaps"], indents=d["indents"], final_newline=d["final_newline"],
                         blank_after_meta=d["blank_after_meta"])


@st.composite
def script_case(draw, cfg):
    return {"script": draw(S.script(cfg)), "layout": draw(layout_light())}


def dump_case(c):
    return A.dump(c)


def load_case(j):
    return A.load(j)


def render_case(c, stats=None):
    try:
        return render.render(c["script"], to_layout(c["layout"]), stats)
    except render.RenderError as e:
        if os.environ.get("BBV_STRICT"):
            raise HarnessError("render: %s" % e)
        raise Discard("generator-unrenderable-model")


def reference(script, includes=None):
    """RefProgram or raises Discard."""
    try:
        ref = refsem.run(script, includes)
        _check_symbolic_domain(ref)
        return ref
    except OutOfDomain as e:
        raise Discard("domain:" + e.reason)
    except refsem.RefModelError as e:
        # a generator defect, never a violation: the case is discarded and counted (reported in the evidence)
        if os.environ.get("BBV_STRICT"):
            raise HarnessError("generator produced an invalid model: %s\n%s" % (e, render.render(script)))
        raise Discard("generator-invalid-model")


def _rsyms(v):
    if isinstance(v, refsem.RSym):
        yield v
    elif isinstance(v, refsem.RList):
        for i in v.items:
            yield from _rsyms(i)
    elif isinstance(v, refsem.RArray):
        for i in v.flat():
            yield from _rsyms(i)


def _check_symbolic_domain(ref):
    """Symbolic values are closures; make sure each is evaluable at some generic point
    (constant sub-expressions such as 8**-1 are evaluated by the loader at once)."""
    from ..valuecmp import sym_points
    vals = []
    for o in ref.ops:
        vals += list(o.args or []) + [v for _, v in (o.kwargs or [])]
    vals += list(ref.variables.values())
    for v in vals:
        for rs in _rsyms(v):
            first = None
            ok = False
            for beta in sym_points(rs.syms):
                try:
                    rs.eval(beta)
                    ok = True
                    break
                except OutOfDomain as e:
                    first = first or e
            if not ok:
                raise first
            # a symbol on which the value does not depend "cancels identically" (excluded by C01/C04/C08)
            pts = sym_points(rs.syms)
            for sname in rs.syms:
                depends = False
                for beta in pts:
                    b2 = dict(beta)
                    b2[sname] = N.add(beta[sname], N.V("real", N.mpf("0.6180339887498949"), 0))
                    try:
                        v1, v2 = rs.eval(beta), rs.eval(b2)
                    except OutOfDomain:
                        continue
                    d = abs(v1.as_mp() - v2.as_mp())
                    # (scale 1: the sample points are O(1); a result that is pure 50-digit roundoff, such as
                    #  -a - b + b + a, must not count as a dependency)
                    if d > N.mpf("1e-30") * max(abs(v1.as_mp()), abs(v2.as_mp()), N.mpf(1)):
                        depends = True
                        break
                if not depends:
                    raise OutOfDomain("symbol cancels identically")


from ..run import Discard  # noqa: E402  (re-exported)


def features(script):
    """Structural classes of a script (evidence counters and non-triviality rules)."""
    f = set()
    nstmt = 0
    for it in script.items:
        if isinstance(it, A.For):
            f.add("loop")
            if isinstance(it.header, A.Range):
                f.add("loop-range")
            else:
                f.add("loop-list")
            if len(it.body) >= 2:
                f.add("loop-body>=2")
            nstmt += len(it.body)
        elif isinstance(it, A.Stmt):
            nstmt += 1
        elif isinstance(it, A.ScalarDecl):
            f.add("scalar")
        elif isinstance(it, (A.ArrayDecl, A.ArrayParamDecl)):
            f.add("array")
            if isinstance(it, A.ArrayParamDecl):
                f.add("array-param-whole")
            elif any(len(e.operands) == 1 and isinstance(e.operands[0].prim, A.Param) for r in it.rows for e in r):
                f.add("array-param-element")
    for st_ in A.statements(script):
        if st_.args is not None:
            for k, v in st_.args.kwargs:
                f.add("kwarg")
                if isinstance(v, A.ListVal):
                    f.add("list-kwarg")
            for v in list(st_.args.pos) + [v for _, v in st_.args.kwargs]:
                for x in (v.items if isinstance(v, A.ListVal) else [v]):
                    if isinstance(x, A.Flat):
                        for p in A.walk_prims(x):
                            if isinstance(p, A.Param):
                                f.add("param")
                            elif isinstance(p, A.Reg):
                                f.add("register")
                            elif isinstance(p, A.Idx):
                                f.add("index")
                            elif isinstance(p, A.Var):
                                f.add("var-ref")
        else:
            f.add("no-args")
        if len(st_.modes) > 1:
            f.add("multi-mode")
        if st_.lbr != {")": "(", "]": "[", "": ""}.get(st_.rbr, "?"):
            f.add("unbalanced-mode-brackets")
        if st_.op.startswith("Measure"):
            f.add("measure")
    if (script.target and script.target.args and script.target.args.kwargs) or \
            (script.ptype and script.ptype.args and script.ptype.args.kwargs):
        f.add("options")
    if script.target:
        f.add("target")
    if script.ptype:
        f.add("type")
    names = []
    seen = set()
    for it in script.items:
        if isinstance(it, (A.ScalarDecl, A.ArrayDecl, A.ArrayParamDecl)):
            if it.name in seen:
                f.add("redeclaration")
            seen.add(it.name)
    f.add("statements:%s" % ("1-3" if nstmt <= 3 else "4+"))
    return f, nstmt


def var_used_after_gap(script):
    """A declared variable referenced by a statement with >= 1 other item in between."""
    decl_at = {}
    for i, it in enumerate(script.items):
        if isinstance(it, (A.ScalarDecl, A.ArrayDecl)):
            decl_at[it.name] = i
        stmts = it.body if isinstance(it, A.For) else [it] if isinstance(it, A.Stmt) else []
        for s in stmts:
            vals = list(s.modes)
            if s.args is not None:
                vals += list(s.args.pos) + [v for _, v in s.args.kwargs]
            for v in vals:
                for x in (v.items if isinstance(v, A.ListVal) else [v]):
                    if isinstance(x, A.Flat):
                        for p in A.walk_prims(x):
                            nm = p.name if isinstance(p, (A.Var, A.Idx)) else None
                            if nm in decl_at and i - decl_at[nm] >= 2:
                                return True
    return False


def mismatch_violations(stage, mismatches, text, limit=3):
    """One Violation per distinct mismatch class (bucket = stage|class)."""
    out = []
    seen = set()
    for m in mismatches:
        if m.cls in seen:
            continue
        seen.add(m.cls)
        out.append(Violation("%s|%s" % (stage, m.cls), "%s\nscript:\n%s" % (m.msg, text)))
        if len(out) >= limit:
            break
    return out

"""Shared access to the reference recogniser (built from /repo/src/blackbird.g4 at run time)
and to the shipped ANTLR lexer/parser."""
import os

REPO = os.environ.get("BBV_REPO", "/repo")

_cache = {}


def grammar():
    if "g" not in _cache:
        from .g4 import reader
        _cache["g"] = reader.load(os.path.join(REPO, "src", "blackbird.g4"))
    return _cache["g"]


def lexer():
    if "lx" not in _cache:
        from .g4 import reflex
        _cache["lx"] = reflex.RefLexer(grammar())
    return _cache["lx"]


def cfg():
    if "cfg" not in _cache:
        from .g4 import earley
        _cache["cfg"] = earley.CFG(grammar())
    return _cache["cfg"]


def ref_tokens(text):
    return lexer().tokens(text)


def ref_verdict(text):
    """(accepted, k, tokens): k = index of first token that makes the text ungrammatical."""
    toks = lexer().tokens(text)
    ok, k = cfg().recognise([t.name for t in toks])
    return ok, k, toks


def shipped_tokens(text, hidden=False):
    """Token list of the shipped Python lexer: (type, text, start, stop, line, column), EOF included.
    hidden=True: tokens off the default channel are included as well, with their channel appended."""
    import antlr4
    from blackbird.blackbirdLexer import blackbirdLexer
    lx = blackbirdLexer(antlr4.InputStream(text))
    lx.removeErrorListeners()
    out = []
    while True:
        t = lx.nextToken()
        if t.channel == 0 or t.type == -1:
            out.append((t.type, t.text, t.start, t.stop, t.line, t.column))
        elif hidden:
            out.append((t.type, t.text, t.start, t.stop, t.line, t.column, t.channel))
        if t.type == -1:
            break
    return out

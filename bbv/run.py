"""Runner: tiers, seeds, sharding, root-cause bucketing, known findings, evidence, exit codes.

A property module (bbv/props/cNN.py) defines
    ID, RULE (str), ASSUMPTIONS (list[str])
    BUDGET = {"quick": (examples, shards), "thorough": (examples, shards)}
    strategy(tier) -> hypothesis strategy producing a case (anything dump()-able)
    check(case) -> Outcome
    dump_case(case) -> JSON-able ; load_case(json) -> case
Optional:
    extra(tier, seed, report) -> None   (non-Hypothesis parts, e.g. exhaustive artefact comparison)
    stateful machines define run_shard themselves (see c12/c13).
"""
import hashlib
import importlib
import json
import multiprocessing
import os
import signal
import sys
import time
import traceback
from dataclasses import dataclass, field
from typing import Any, Dict, List, Optional

VERIF = os.path.dirname(os.path.dirname(os.path.abspath(__file__)))
# scratch runs (sensitivity experiments against patched worktrees) write their evidence/replays elsewhere
OUT = os.environ.get("BBV_OUT") or VERIF


class HarnessError(Exception):
    pass


class Discard(Exception):
    """Raised by a property when the generated case lies outside its input domain (counted, never reported)."""

    def __init__(self, reason):
        super().__init__(reason)
        self.reason = reason


@dataclass
class Violation:
    bucket: str           # root-cause key (coarse part: cheap to compute)
    detail: str           # human readable
    refine: Any = None    # optional callable -> str: culprit signature appended to the bucket
                          # (expensive; evaluated for the minimal case and for later cases of a bucket already seen)


@dataclass
class Outcome:
    violations: List[Violation] = field(default_factory=list)
    nontrivial: bool = False
    key: str = ""                       # text hashed for distinctness
    classes: List[str] = field(default_factory=list)
    discard: Optional[str] = None       # reason when the case is outside the domain
    sample: Any = None                  # JSON-able rendering of the case for evidence samples


def sha(s):
    return hashlib.sha1(s.encode("utf-8", "surrogatepass")).hexdigest()[:16]


def exc_bucket(stage, e):
    """Root-cause key of an exception: stage, type, innermost frame inside the blackbird package."""
    tb = traceback.extract_tb(e.__traceback__)
    where = "?"
    for fr in reversed(tb):
        fn = fr.filename.replace("\\", "/")
        if "/blackbird/" in fn and "/bbv/" not in fn:
            where = "%s:%s" % (os.path.basename(fn), fr.name)
            break
    return "%s|%s|%s" % (stage, type(e).__name__, where)


class Stats:
    def __init__(self):
        self.evaluations = 0
        self.discards = {}
        self.classes = {}
        self.nontrivial = set()
        self.samples = []
        self.excluded = {}
        self.buckets = {}        # bucket -> {"detail":..., "case":..., "size": int}
        self.notes = {}
        self.harness_errors = []

    def merge(self, o):
        self.evaluations += o["evaluations"]
        for k, v in o["discards"].items():
            self.discards[k] = self.discards.get(k, 0) + v
        for k, v in o["classes"].items():
            self.classes[k] = self.classes.get(k, 0) + v
        self.nontrivial |= set(o["nontrivial"])
        self.samples.extend(o["samples"])
        for k, v in o["excluded"].items():
            self.excluded[k] = self.excluded.get(k, 0) + v
        for b, info in o["buckets"].items():
            if b not in self.buckets or info["size"] < self.buckets[b]["size"]:
                self.buckets[b] = info
        for k, v in o.get("notes", {}).items():
            if isinstance(v, (int, float)):
                self.notes[k] = self.notes.get(k, 0) + v
            else:
                self.notes[k] = v
        self.harness_errors.extend(o.get("harness_errors", []))


class CaseTimeout(BaseException):
    """One case did not finish within the per-case time limit (BaseException: not swallowed by `except Exception`)."""


CASE_LIMIT = {"quick": 120, "thorough": 300}     # seconds per case (a case normally takes milliseconds); 3 timeouts end a shard


def _alarm_handler(signum, frame):
    raise CaseTimeout()


def _derive_seed(seed, shard, rnd):
    h = hashlib.sha256(("%d/%d/%d" % (seed, shard, rnd)).encode()).digest()
    return int.from_bytes(h[:8], "big")


def run_hypothesis_shard(mod, tier, seed, shard, nshards, examples, known_buckets):
    """One shard: rounds of Hypothesis runs; each round excludes buckets already found."""
    import hypothesis
    from hypothesis import given, settings, HealthCheck, Phase

    res = dict(evaluations=0, discards={}, classes={}, nontrivial=set(), samples=[], excluded={}, buckets={},
               notes={}, harness_errors=[])
    found = {}                       # bucket -> info
    excluded = set(known_buckets)
    coarse_seen = set()
    remaining = examples
    rnd = 0
    strat = mod.strategy(tier)
    shrink_budget = 150 if tier == "quick" else 2000
    limit = int(os.environ.get("BBV_CASE_LIMIT", CASE_LIMIT.get(tier, 30)))
    signal.signal(signal.SIGALRM, _alarm_handler)

    class Found(Exception):
        pass

    class _Stop(KeyboardInterrupt):
        pass

    while remaining > 0 and rnd < 12:
        state = {"calls": 0, "fail_calls": 0, "failing_keys": set(), "last_fail": None, "frozen": False,
                 "target": None, "shrink_calls": 0, "last_size": 0, "history": [], "fail_history": None}

        def body(case):
            state["calls"] += 1
            if state["target"] is None:
                state["history"].append(case)
                if len(state["history"]) > 300:
                    del state["history"][:100]
            res["evaluations"] += 1
            if state["target"] is not None:
                state["shrink_calls"] += 1
                if state["shrink_calls"] > shrink_budget:
                    # shrink budget used up: leave Hypothesis (it re-raises KeyboardInterrupt at once);
                    # the smallest failing case seen so far becomes the replay
                    raise _Stop()
            try:
                signal.alarm(limit)
                try:
                    out = mod.check(case)
                finally:
                    signal.alarm(0)
            except CaseTimeout:
                # inconclusive for this case: counted, the search goes on (reported as a harness error unless a violation is found)
                key = "timeout(>%ds)" % limit
                res["discards"][key] = res["discards"].get(key, 0) + 1
                if "timeout_case" not in res["notes"]:
                    try:
                        res["notes"]["timeout_case"] = json.dumps(mod.dump_case(case), default=str)[:4000]
                    except Exception:
                        res["notes"]["timeout_case"] = "?"
                if hasattr(mod, "after_timeout"):
                    mod.after_timeout()
                if res["discards"][key] >= 3:
                    raise _Stop()
                return
            except HarnessError:
                raise
            except RecursionError:
                res["discards"]["recursion"] = res["discards"].get("recursion", 0) + 1
                return
            except Discard as d:
                res["discards"][d.reason] = res["discards"].get(d.reason, 0) + 1
                return
            if out.discard:
                res["discards"][out.discard] = res["discards"].get(out.discard, 0) + 1
                return
            for c in out.classes:
                res["classes"][c] = res["classes"].get(c, 0) + 1
            if out.nontrivial:
                res["nontrivial"].add(sha(out.key))
            if out.sample is not None and out.nontrivial and len(res["samples"]) < 3 and \
                    res["evaluations"] >= (15, 120, 600)[len(res["samples"])] // (1 if examples >= 600 else 8):
                res["samples"].append(out.sample)
            new = []
            for v in out.violations:
                if v.bucket in excluded:
                    res["excluded"][v.bucket] = res["excluded"].get(v.bucket, 0) + 1
                    continue
                if v.refine is not None and v.bucket in coarse_seen and state["target"] != v.bucket:
                    fine = v.bucket + "|" + v.refine()
                    if fine in excluded:
                        res["excluded"][fine] = res["excluded"].get(fine, 0) + 1
                        continue
                new.append(v)
            if not new:
                return
            if state["target"] is None:
                state["target"] = new[0].bucket
                state["fail_history"] = list(state["history"][:-1])
            k = sha(out.key)
            if state["frozen"] and k not in state["failing_keys"]:
                return          # shrink budget used up: stop exploring new shrinks
            state["failing_keys"].add(k)
            state["fail_calls"] += 1
            if state["fail_calls"] > shrink_budget:
                state["frozen"] = True
            size = len(json.dumps(mod.dump_case(case), default=str))
            if state["last_fail"] is None or size <= state["last_size"]:
                state["last_fail"] = (case, new, out)
                state["last_size"] = size
            raise Found(new[0].bucket)

        test = given(strat)(body)
        test = hypothesis.seed(_derive_seed(seed, shard, rnd))(test)
        test = settings(max_examples=remaining, database=None, deadline=None, derandomize=False,
                        report_multiple_bugs=False, print_blob=False,
                        suppress_health_check=list(HealthCheck),
                        phases=(Phase.generate, Phase.shrink))(test)
        try:
            test()
            remaining = 0
        except (Found, _Stop):
            if state["last_fail"] is None:
                break           # stopped after repeated per-case timeouts
            case, new, out = state["last_fail"]
            for v in new:
                if v.refine is not None:
                    coarse_seen.add(v.bucket)
                    v = Violation(v.bucket + "|" + v.refine(), v.detail)
                info = {"detail": v.detail, "case": mod.dump_case(case), "size": len(json.dumps(mod.dump_case(case))),
                        "seed": seed, "shard": shard}
                if v.bucket not in found or info["size"] < found[v.bucket]["size"]:
                    found[v.bucket] = info
                excluded.add(v.bucket)
            remaining -= state["calls"]
        except hypothesis.errors.Flaky as e:
            if state["last_fail"] is None:
                res["harness_errors"].append("flaky: %s" % (str(e)[:300],))
                break
            # a violation was observed on a concrete case, but the same case behaves differently when Hypothesis runs it again:
            # the outcome depends on what the process did before. The replay file carries the preceding cases of this process.
            case, new, out = state["last_fail"]
            v = new[0]
            hist = []
            for h in (state["fail_history"] or [])[-200:]:
                try:
                    hist.append(mod.dump_case(h))
                except Exception:
                    pass
            b = v.bucket + "|only-after-earlier-cases-in-the-same-process"
            found[b] = {"detail": v.detail + "\n(the same case gives another outcome when it is run again: the result depends on what "
                        "was loaded earlier in the process; the replay file re-runs the %d preceding cases first)" % len(hist),
                        "case": mod.dump_case(case), "history": hist, "size": len(json.dumps(mod.dump_case(case))), "seed": seed, "shard": shard}
            break
        except hypothesis.errors.Unsatisfiable as e:
            res["harness_errors"].append("unsatisfiable: %s" % (str(e)[:300],))
            break
        rnd += 1
    res["buckets"] = found
    res["nontrivial"] = list(res["nontrivial"])
    return res


def _shard_entry(a):
    modname, tier, seed, shard, nshards, examples, known = a
    try:
        mod = importlib.import_module(modname)
        if hasattr(mod, "run_shard"):
            return mod.run_shard(tier, seed, shard, nshards, examples, known)
        return run_hypothesis_shard(mod, tier, seed, shard, nshards, examples, known)
    except HarnessError as e:
        return {"fatal": "HarnessError: %s" % e}
    except Exception:
        return {"fatal": traceback.format_exc()}


def _run_subprocess_shards(jobs):
    """Each shard in a fresh interpreter with its own PYTHONHASHSEED (shard index)."""
    import subprocess
    import tempfile
    procs = []
    tmpdir = tempfile.mkdtemp(prefix="bbv-shards-")
    try:
        for job in jobs:
            shard = job[3]
            inp = os.path.join(tmpdir, "in%d.json" % shard)
            outp = os.path.join(tmpdir, "out%d.json" % shard)
            with open(inp, "w") as f:
                json.dump(list(job), f)
            env = dict(os.environ)
            env["PYTHONHASHSEED"] = str(shard)
            procs.append((subprocess.Popen([sys.executable, "-W", "ignore", "-m", "bbv.cli", "--shard", inp, outp], env=env,
                                           stdout=subprocess.PIPE, stderr=subprocess.STDOUT, text=True), outp))
        results = []
        for pr, outp in procs:
            so, _ = pr.communicate()
            if pr.returncode != 0 or not os.path.exists(outp):
                results.append({"fatal": "shard subprocess failed (%s): %s" % (pr.returncode, so[-2000:])})
            else:
                r = json.load(open(outp))
                results.append(r)
        return results
    finally:
        import shutil
        shutil.rmtree(tmpdir, ignore_errors=True)


def _shard_main(inp, outp):
    job = json.load(open(inp))
    r = _shard_entry(tuple(job))
    if "nontrivial" in r:
        r["nontrivial"] = list(r["nontrivial"])
    r.setdefault("notes", {})
    with open(outp, "w") as f:
        json.dump(r, f, default=str)
    return 0


# ------------------------------------------------------------------ known findings

def load_known(pid):
    path = os.path.join(VERIF, "KNOWN_FINDINGS.txt")
    out = []
    if not os.path.exists(path):
        return out
    for line in open(path, encoding="utf-8"):
        line = line.strip()
        if not line or line.startswith("#"):
            continue
        if line.startswith("open:"):
            parts = dict(p.split("=", 1) for p in line[5:].split() if "=" in p and p.split("=", 1)[0] in ("property", "bucket", "case"))
            what = line.split(" -- ", 1)[1] if " -- " in line else line
            if parts.get("property") == pid:
                out.append({"bucket": parts.get("bucket"), "case": parts.get("case"), "what": what})
    return out


# ------------------------------------------------------------------ main

def run_property(pid, tier, seed):
    t0 = time.time()
    modname = "bbv.props.%s" % pid.lower()
    mod = importlib.import_module(modname)
    examples, nshards = mod.BUDGET[tier]
    if os.environ.get("BBV_EXAMPLES"):
        examples = int(os.environ["BBV_EXAMPLES"])
    if os.environ.get("BBV_SHARDS"):
        nshards = int(os.environ["BBV_SHARDS"])
    known = load_known(pid)
    known_buckets = []
    lines = []
    # re-confirm each open finding on its stored case
    for k in known:
        case_path = os.path.join(VERIF, k["case"])
        try:
            case = mod.load_case(json.load(open(case_path))["case"])
            out = mod.check(case)
            if any(v.bucket == k["bucket"] for v in out.violations):
                known_buckets.append(k["bucket"])
                lines.append("KNOWN-FINDING: property=%s %s" % (pid, k["what"]))
        except Exception as e:   # a broken finding file is a harness error
            raise HarnessError("cannot replay known finding %s: %r" % (k["case"], e))
    stats = Stats()
    per = max(1, examples // nshards)
    jobs = [(modname, tier, seed, s, nshards, per, known_buckets) for s in range(nshards)]
    if getattr(mod, "SHARD_HASHSEEDS", False):
        results = _run_subprocess_shards(jobs)
    elif nshards == 1:
        results = [_shard_entry(jobs[0])]
    else:
        import concurrent.futures as cf
        ctx = multiprocessing.get_context("fork")
        try:
            with cf.ProcessPoolExecutor(min(nshards, os.cpu_count() or 1), mp_context=ctx) as pool:
                results = list(pool.map(_shard_entry, jobs, chunksize=1))
        except cf.process.BrokenProcessPool as e:
            raise HarnessError("a shard process died (killed or crashed): %s" % e)
    for r in results:
        if "fatal" in r:
            raise HarnessError(r["fatal"])
        stats.merge(r)
    report = {"extra": {}}
    if hasattr(mod, "extra"):
        ev = mod.extra(tier, seed)
        for b, info in ev.get("buckets", {}).items():
            if b not in known_buckets:
                stats.buckets[b] = info
        report["extra"] = ev.get("coverage", {})
        stats.evaluations += ev.get("evaluations", 0)
    if stats.harness_errors:
        raise HarnessError("; ".join(stats.harness_errors[:3]))
    timeouts = sum(v for k, v in stats.discards.items() if k.startswith("timeout("))
    if timeouts and not stats.buckets:
        raise HarnessError("inconclusive: %d case(s) did not finish within the per-case time limit and no violation was found; "
                           "first such case: %s" % (timeouts, str(stats.notes.get("timeout_case"))[:1500]))
    # replay files and verdict
    os.makedirs(os.path.join(OUT, "replays"), exist_ok=True)
    violations = 0
    for b, info in sorted(stats.buckets.items()):
        violations += 1
        path = os.path.join("replays", "%s-%s.json" % (pid, sha(b)))
        with open(os.path.join(OUT, path), "w", encoding="utf-8") as f:
            doc = {"property": pid, "bucket": b, "detail": info["detail"], "case": info["case"], "seed": info.get("seed"), "tier": tier}
            if info.get("history"):
                doc["history"] = info["history"]
            json.dump(doc, f, indent=1, ensure_ascii=True)
        lines.append("VIOLATION property=%s replay=%s" % (pid, os.path.join(OUT, path)))
        lines.append("  bucket: %s" % b)
        lines.append("  detail: %s" % info["detail"][:600].replace("\n", "\n          "))
    wall = time.time() - t0
    total_discards = sum(stats.discards.values())
    coverage = {
        "evaluations": stats.evaluations,
        "distinct_nontrivial": len(stats.nontrivial),
        "rule": mod.RULE,
        "samples": stats.samples[:5],
        "classes": dict(sorted(stats.classes.items())),
        "discarded": dict(sorted(stats.discards.items())),
        "discarded_total": total_discards,
        "excluded_by_bucket": stats.excluded,
        "shards": nshards,
        "examples_budget": examples,
        "known_findings_confirmed": known_buckets,
        "budget_exhausted": False,
    }
    coverage.update(stats.notes)
    coverage.update(report["extra"])
    evidence = {
        "property_id": pid,
        "tier": tier,
        "seed": seed,
        "level": getattr(mod, "LEVEL", "exploration"),
        "coverage": coverage,
        "assumptions": getattr(mod, "ASSUMPTIONS", []),
        "wall_s": round(wall, 2),
        "violations": violations,
    }
    os.makedirs(os.path.join(OUT, "evidence"), exist_ok=True)
    with open(os.path.join(OUT, "evidence", "%s.json" % pid), "w", encoding="utf-8") as f:
        json.dump(evidence, f, indent=1, ensure_ascii=True, default=str)
    for l in lines:
        print(l)
    print("%s %s seed=%d: evaluations=%d nontrivial=%d discarded=%d violations=%d wall=%.1fs" % (
        pid, tier, seed, stats.evaluations, len(stats.nontrivial), total_discards, violations, wall))
    low = [c for c, n in stats.classes.items() if c.startswith("!") and n < 0.02 * max(1, stats.evaluations - total_discards)]
    if low:
        print("warning: rare classes: %s" % ", ".join(low))
    return 1 if violations else 0


def replay(path):
    data = json.load(open(path, encoding="utf-8"))
    pid = data["property"]
    mod = importlib.import_module("bbv.props.%s" % pid.lower())
    for h in data.get("history") or []:
        try:
            mod.check(mod.load_case(h))
        except BaseException:
            pass
    if hasattr(mod, "replay"):
        out = mod.replay(data["case"])
    else:
        out = mod.check(mod.load_case(data["case"]))
    if out.discard:
        print("case is outside the domain now: %s" % out.discard)
        return 0
    if out.violations:
        for v in out.violations:
            print("VIOLATION property=%s replay=%s" % (pid, os.path.abspath(path)))
            print("  bucket: %s" % v.bucket)
            print("  detail: %s" % v.detail[:2000])
        return 1
    print("no violation on replay")
    return 0


def main(argv):
    if len(argv) >= 3 and argv[0] == "--shard":
        return _shard_main(argv[1], argv[2])
    if len(argv) >= 2 and argv[0] == "--replay":
        return replay(argv[1])
    if len(argv) < 2:
        print("usage: check <ID> <quick|thorough> | --replay <file>")
        return 2
    pid, tier = argv[0].upper(), argv[1]
    seed = int(os.environ.get("VERIF_SEED", "1") or 1)
    try:
        return run_property(pid, tier, seed)
    except HarnessError as e:
        print("HARNESS-ERROR %s: %s" % (pid, e))
        return 2
    except Exception:
        print("HARNESS-ERROR %s:\n%s" % (pid, traceback.format_exc()))
        return 2


if __name__ == "__main__":
    sys.exit(main(sys.argv[1:]))

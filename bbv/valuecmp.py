"""Comparison of values delivered by the package with reference values (refsem / numeric)."""
import numbers

import numpy as np
import sympy as sym

from .model import numeric as N
from .model import refsem as R
from .model.numeric import V, OutOfDomain


def kind_of(x):
    """Kind class of an actual value (for bucket names)."""
    if isinstance(x, (bool, np.bool_)):
        return "bool"
    if isinstance(x, str):
        return "str"
    if isinstance(x, numbers.Integral):
        return "int"
    if isinstance(x, numbers.Real):
        return "real"
    if isinstance(x, numbers.Complex):
        return "complex"
    if isinstance(x, np.ndarray):
        return "array"
    if isinstance(x, list):
        return "list"
    if isinstance(x, sym.Expr):
        return "sympy"
    return type(x).__name__


class Mismatch:
    def __init__(self, cls, msg):
        self.cls = cls      # short class used in bucket keys
        self.msg = msg

    def __repr__(self):
        return "%s: %s" % (self.cls, self.msg)


class IllConditioned(Exception):
    pass


def num_matches(ref, act, rtol=1e-12, strict_int=True):
    """None if act matches the reference numeric value, else a Mismatch.
    Raises IllConditioned when the reference cannot support the tolerance."""
    if isinstance(act, (bool, np.bool_)) or not isinstance(act, numbers.Number):
        return Mismatch("kind:%s-for-%s" % (kind_of(act), ref.kind), "expected a number (%r), got %r" % (ref, act))
    if ref.kind == "int":
        if strict_int and not isinstance(act, numbers.Integral):
            return Mismatch("kind:%s-for-int" % kind_of(act), "expected integer %d, got %r (%s)" % (ref.v, act, type(act).__name__))
        try:
            ok = (act == ref.v)
        except Exception:
            ok = False
        if not ok:
            return Mismatch("value:int", "expected %d, got %r" % (ref.v, act))
        return None
    if ref.kind == "real" and isinstance(act, numbers.Complex) and not isinstance(act, numbers.Real):
        if complex(act).imag != 0:
            return Mismatch("kind:complex-for-real", "expected real %s, got %r" % (N.mp.nstr(ref.v, 17), act))
    if ref.v != 0 and ref.err > N.mpf("1e-6") * ref.mag:
        # the reference says (almost) nothing about this value: leave it unchecked
        raise IllConditioned()
    if ref.err == 0:
        # literal: exact
        try:
            c = complex(act)
        except Exception:
            return Mismatch("value:exact", "expected %r, got %r" % (ref, act))
        r = N.mpc(ref.v) if ref.kind == "complex" else N.mpc(ref.v, 0)
        if N.mpc(c.real, c.imag) != r:
            return Mismatch("value:exact", "expected exactly %s, got %r" % (N.mp.nstr(ref.v, 20), act))
        return None
    if not N.close(ref, act, rtol):
        return Mismatch("value:%s" % ref.kind, "expected %s (relative 1e-12), got %r" % (N.mp.nstr(ref.v, 20), act))
    return None


DEFAULT_POINTS = [
    [N.mpf("0.7310585786300049"), N.mpf("1.3591409142295225"), N.mpf("-0.4142135623730951"), N.mpf("2.2360679774997898"),
     N.mpf("0.5671432904097838"), N.mpf("-1.6180339887498949"), N.mpf("3.3019272488946263"), N.mpf("0.2078795763507619")],
    [N.mpf("-1.2020569031595942"), N.mpf("0.9159655941772190"), N.mpf("1.7724538509055159"), N.mpf("-0.6931471805599453"),
     N.mpf("2.6651441426902252"), N.mpf("0.3678794411714423"), N.mpf("-2.0945514815423265"), N.mpf("1.1447298858494002")],
    [N.mpf("1.4513692348833811"), N.mpf("-0.5772156649015329"), N.mpf("0.8346268416740732"), N.mpf("2.5029078750958928"),
     N.mpf("-1.3247179572447460"), N.mpf("0.6434105462883380"), N.mpf("1.9021605831040382"), N.mpf("-0.2614972128476428")],
]


def _literals_of(expr, limit=3):
    """Numeric literal values written in a surface expression (candidates for roots such as (q0 - 1)**7)."""
    from .model import ast as A
    out = []
    if isinstance(expr, A.Flat):
        for p in A.walk_prims(expr):
            if isinstance(p, A.Num) and p.kind in ("int", "float"):
                try:
                    v = float(p.text)
                except ValueError:
                    continue
                if 0 < abs(v) < 1e6 and v not in out:
                    out.append(v)
    return out[:limit]


def sym_points(syms, rsym=None):
    """Deterministic sample assignments for a set of symbols (('p', name) / ('r', n)): three generic points, one with all
    symbols close to each other near 1, and points close to the literals written in the expression (values at which a
    rearranged -- expanded, 'simplified' -- formula loses accuracy although the written one does not)."""
    order = sorted(syms, key=lambda s: (s[0], str(s[1])))
    pts = []
    for row in DEFAULT_POINTS:
        pts.append({s: V("real", row[i % len(row)] + N.mpf(i // len(row)) / 3, 0) for i, s in enumerate(order)})
    pts.append({s: V("real", N.mpf("1.004") + N.mpf(i) / 1000, 0) for i, s in enumerate(order)})
    # measurement / parameter values are doubles: the reference must see exactly the value the function receives
    def _dbl(pt):
        return {s: V("real", N.mpf(float(v.v)), 0) for s, v in pt.items()}
    if rsym is not None and getattr(rsym, "expr", None) is not None:
        for L in _literals_of(rsym.expr):
            pts.append({s: V("real", N.mpf(L) + N.mpf("0.004") + N.mpf(7 * i) / 10000, 0) for i, s in enumerate(order)})
    out = [_dbl(pt) for pt in pts]
    if order and all(s[0] == "r" for s in order):
        # measured photon numbers are integers: small counts, large counts close together (differences of powers cancel) and
        # counts whose squares need more than 53 bits -- an integer formula over integer results has an exact integer value
        for base, step in ((3, 2), (300001, -1), (94906267, 1)):
            out.append({s: N.from_int(base + step * i) for i, s in enumerate(order)})
    return out


def sym_matches(rsym, act_fn, rtol=1e-9):
    """rsym: refsem.RSym; act_fn(beta) -> actual numeric value at the assignment beta
    (beta maps ('p', name)/('r', n) -> V).  Returns None | Mismatch; raises IllConditioned
    if no sample point is usable."""
    usable = 0
    cond = N.mpf("1e-6")      # a point is usable while the reference still fixes six digits (its error bound is part of the tolerance)
    for beta in sym_points(rsym.syms, rsym):
        try:
            ref = rsym.eval(beta)
        except OutOfDomain:
            continue
        if not isinstance(ref, V):
            continue
        if ref.kind != "int" and any(v.kind == "int" for v in beta.values()):
            # integer sample values are used for integer formulas only (integer coefficients, + - * and non-negative integer
            # powers): there every algebraically equal arrangement is exact in integer arithmetic.  With a float coefficient or a
            # division the implementation may legitimately evaluate a rearranged form (SymPy distributes 3e-11*(q0 - q1) and folds
            # constants), whose rounding errors large, close integers amplify -- not a violation of the written formula
            continue
        # conditioning at the looser tolerance
        if ref.kind != "int" and (ref.v == 0 or ref.err > cond * ref.mag):
            continue
        try:
            act = act_fn(beta)
        except ZeroDivisionError:
            continue
        usable += 1
        if not isinstance(act, numbers.Number) or isinstance(act, bool):
            try:
                act = complex(act)
            except Exception:
                return Mismatch("sym:non-numeric", "symbolic value did not evaluate to a number: %r" % (act,))
        if not N.close(ref, act, rtol):
            return Mismatch("sym:value", "at %s expected %s, got %r" % (
                {k: float(v.v) for k, v in beta.items()}, N.mp.nstr(ref.as_mp(), 15), act))
    if not usable:
        raise IllConditioned()
    return None


def sympy_at(expr, beta):
    """Evaluate a SymPy expression at beta (symbols named by parameter / register names)."""
    subs = {}
    for s in expr.free_symbols:
        nm = str(s)
        key = None
        if ("p", nm) in beta:
            key = ("p", nm)
        elif nm.startswith("q") and nm[1:].isdigit() and ("r", int(nm[1:])) in beta:
            key = ("r", int(nm[1:]))
        if key is None:
            raise KeyError(nm)
        subs[s] = sym.Float(N.mp.nstr(beta[key].as_mp(), 40), 40)
    val = expr.evalf(30, subs=subs)
    c = complex(val)
    return c.real if c.imag == 0 else c

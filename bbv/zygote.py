"""Pristine-process service for the history property C12.

Started as a fresh interpreter (python -m bbv.zygote); it imports the package but never loads a
script itself.  For every request (one JSON line on stdin) it forks a child that executes the
request and sends the result back (one JSON line on stdout):

  {"steps": [step, ...]}  ->  {"outcomes": [...], "shared": [...]}

All steps of one request run in the SAME child, in order, so a request with one step is a
pristine evaluation and a request with many steps is a history.  A step is
  {"kind": "loads", "text": ...}
  {"kind": "load", "files": {relpath: text}, "main": relpath, "cwd": relpath-or-"."}
  {"kind": "mutate", "target": k, "how": h}          (only meaningful inside a history)
"""
import json
import os
import shutil
import sys
import tempfile
import warnings


def _outcome_of(fn, scrub=None):
    from bbv import canon
    try:
        # (no warnings.catch_warnings() around the call: it would put back an interpreter-wide warnings filter that a load
        # leaves behind, and with it the effect of that filter on later loads -- the child silences warnings once, at its start)
        p = fn()
        return {"ok": canon.snapshot(p)}, p
    except RecursionError:
        return {"exc": "RecursionError", "msg": ""}, None
    except Exception as e:
        msg = str(e)
        if scrub:
            msg = msg.replace(scrub, "<DIR>")
        return {"exc": type(e).__name__, "msg": msg}, None


def run_steps(steps):
    import blackbird
    from bbv import canon
    from bbv.props.c13 import _mutate
    outcomes = []
    returned = []      # [program, snapshot]
    shared = []
    workdir = [None]
    warnings.simplefilter("ignore")        # this child only: it executes one request and exits
    try:
        return _run(steps, outcomes, returned, shared, workdir)
    finally:
        if workdir[0]:
            shutil.rmtree(workdir[0], ignore_errors=True)


def _run(steps, outcomes, returned, shared, workdir):
    import blackbird
    from bbv import canon
    from bbv.props.c13 import _mutate
    for n, s in enumerate(steps):
        if s["kind"] == "loads":
            o, p = _outcome_of(lambda: blackbird.loads(s["text"]))
        elif s["kind"] == "load":
            # all file steps of one request share one directory: the same paths are rewritten between steps
            d = workdir[0] or tempfile.mkdtemp(prefix="bbv-c12-")
            workdir[0] = d
            for rel, text in s["files"].items():
                path = os.path.join(d, rel)
                os.makedirs(os.path.dirname(path), exist_ok=True)
                with open(path, "w", encoding="ascii", newline="") as f:
                    f.write(text)
            old = os.getcwd()
            os.chdir(os.path.join(d, s.get("cwd", ".")))
            try:
                o, p = _outcome_of(lambda: blackbird.load(os.path.join(d, s["main"])), scrub=d)
            finally:
                os.chdir(old)
        elif s["kind"] == "mutate":
            o, p = {"mutated": None}, None
            if returned:
                k = s["target"] % len(returned)
                try:
                    how = _mutate(returned[k][0], s["how"], [0.5])
                    returned[k][1] = canon.snapshot(returned[k][0])
                    o = {"mutated": k, "how": how}
                except Exception as e:
                    o = {"mutated": k, "how": "failed:%s" % type(e).__name__}
                    returned[k][1] = canon.snapshot(returned[k][0])
        else:
            raise ValueError(s["kind"])
        outcomes.append(o)
        if p is not None:
            returned.append([p, o["ok"]])
        for k, (q, snap) in enumerate(returned):
            try:
                now = canon.snapshot(q)
            except Exception as e:
                now = "snapshot-error:%s" % type(e).__name__
            if now != snap:
                shared.append({"step": n, "program": k, "before": str(snap)[:800], "after": str(now)[:800]})
                returned[k][1] = now
    return {"outcomes": outcomes, "shared": shared}


def main():
    import blackbird  # noqa: imported, never used by the zygote itself
    from bbv import canon  # noqa
    from bbv.props.c13 import _mutate  # noqa  (pre-import everything the children use)
    import tempfile, shutil  # noqa
    sys.stdout.write("READY\n")
    sys.stdout.flush()
    for line in sys.stdin:
        line = line.strip()
        if not line:
            continue
        if line == "QUIT":
            break
        req = json.loads(line)
        r, w = os.pipe()
        pid = os.fork()
        if pid == 0:
            os.close(r)
            try:
                res = run_steps(req["steps"])
            except BaseException as e:   # noqa
                res = {"fatal": "%s: %s" % (type(e).__name__, e)}
            with os.fdopen(w, "w") as f:
                f.write(json.dumps(res, default=str))
            os._exit(0)
        os.close(w)
        with os.fdopen(r) as f:
            data = f.read()
        os.waitpid(pid, 0)
        sys.stdout.write((data or json.dumps({"fatal": "child died"})) + "\n")
        sys.stdout.flush()


if __name__ == "__main__":
    main()

#!/bin/bash
# Offline setup: verify imports; install hypothesis/atheris from the wheelhouse only if missing.
set -e
cd "$(dirname "$0")"
if ! /venv/bin/python -c "import hypothesis" 2>/dev/null; then
  /venv/bin/pip install --no-index --find-links /opt/veriftools/wheels --target .deps hypothesis >/dev/null
fi
if ! PYTHONPATH=.deps /venv/bin/python -c "import atheris" 2>/dev/null; then
  /venv/bin/pip install --no-index --find-links /opt/veriftools/wheels --target .deps atheris >/dev/null 2>&1 || echo "atheris not installable (optional)"
fi
PYTHONPATH="$PWD:/repo/blackbird_python:$PWD/.deps" /venv/bin/python -c "
import hypothesis, mpmath, numpy, sympy, networkx, antlr4, blackbird
from bbv import ref
ref.cfg(); ref.lexer()
print('setup ok: hypothesis', hypothesis.__version__)
"

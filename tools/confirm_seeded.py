#!/venv/bin/python
"""Confirm a seeded change in a scratch worktree and store it under /verif/seeded/<name>/.

usage: tools/confirm_seeded.py <property id> <dir with patch.diff[, patch.rebased.diff], demo.py, note.md> <name> [needs text]
Checks: patch applies to /repo HEAD; repository test suite still passes (stable_pass); demo exits 1 patched / 0 clean.
"""
import json, os, shutil, subprocess, sys, tempfile

def sh(cmd, **kw):
    return subprocess.run(cmd, capture_output=True, text=True, **kw)

def main():
    pid, src, name = sys.argv[1], sys.argv[2], sys.argv[3]
    patch = os.path.join(src, "patch.rebased.diff")
    rebased = os.path.exists(patch)
    if not rebased:
        patch = os.path.join(src, "patch.diff")
    wt = tempfile.mkdtemp(prefix="bbv-seeded-wt-")
    os.rmdir(wt)
    head = sh(["git", "-C", "/repo", "rev-parse", "--short", "HEAD"]).stdout.strip()
    r = sh(["git", "-C", "/repo", "worktree", "add", "-q", "--detach", wt, "HEAD"])
    assert r.returncode == 0, r.stderr
    res = {"property": pid, "name": name, "repo_head": head, "patch_rebased_onto_fix_commits": rebased}
    try:
        a = sh(["git", "-C", wt, "apply", os.path.abspath(patch)])
        if a.returncode:
            a = sh(["git", "-C", wt, "apply", "--3way", os.path.abspath(patch)])
            if a.returncode:
                print("PATCH DOES NOT APPLY", a.stderr); return 1
            sh(["git", "-C", wt, "reset", "-q"])
            # store the patch as it applies to the current head
            d = sh(["git", "-C", wt, "diff"]).stdout
            patch = os.path.join(src, "patch.rebased.diff")
            open(patch, "w").write(d)
            res["patch_rebased_onto_fix_commits"] = True
        t = sh(["/verif/tools/repo_tests.py", wt])
        res["tests_on_patched_tree"] = t.stdout.strip().splitlines()[0] if t.stdout else t.stderr[-200:]
        res["tests_pass"] = t.returncode == 0
        env = dict(os.environ, PYTHONPATH=os.path.join(wt, "blackbird_python"), PYTHONHASHSEED="0")
        d1 = sh(["/venv/bin/python", os.path.join(src, "demo.py")], env=env, cwd=src)
        res["demo_exit_patched"] = d1.returncode
        res["demo_output_patched"] = (d1.stdout + d1.stderr)[-600:]
        sh(["git", "-C", wt, "checkout", "--", "."])
        sh(["git", "-C", wt, "clean", "-fdq"])
        d0 = sh(["/venv/bin/python", os.path.join(src, "demo.py")], env=env, cwd=src)
        res["demo_exit_clean"] = d0.returncode
    finally:
        sh(["git", "-C", "/repo", "worktree", "remove", "--force", wt])
        shutil.rmtree(wt, ignore_errors=True)
    ok = res["tests_pass"] and res["demo_exit_patched"] == 1 and res["demo_exit_clean"] == 0
    res["confirmed"] = ok
    print(json.dumps({k: v for k, v in res.items() if k != "demo_output_patched"}))
    if ok:
        dst = os.path.join("/verif/seeded", name)
        os.makedirs(dst, exist_ok=True)
        shutil.copy(patch, os.path.join(dst, "patch.diff"))
        if rebased or res["patch_rebased_onto_fix_commits"]:
            shutil.copy(os.path.join(src, "patch.diff"), os.path.join(dst, "patch.original.diff"))
        shutil.copy(os.path.join(src, "demo.py"), os.path.join(dst, "demo.py"))
        if os.path.exists(os.path.join(src, "note.md")):
            shutil.copy(os.path.join(src, "note.md"), os.path.join(dst, "note.md"))
        meta = {"breaks_property": pid, "source": "independent sub-agent given only the property text and a scratch worktree",
                "needs_to_manifest": " ".join(sys.argv[4:]) or "see note.md",
                "confirmed_by": "tools/confirm_seeded.py in a scratch worktree of /repo@%s: %s; demo exit %d on patched tree, %d on clean tree" % (
                    head, res["tests_on_patched_tree"], res["demo_exit_patched"], res["demo_exit_clean"]),
                "caught_by": [], "notes": ""}
        json.dump(meta, open(os.path.join(dst, "meta.json"), "w"), indent=1)
    return 0 if ok else 1

sys.exit(main())

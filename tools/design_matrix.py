#!/venv/bin/python
"""Prints the markdown table of seeded changes (seeded/*/meta.json + KILL_MATRIX.json) for DESIGN.md section 10."""
import json, os, re
S = "/verif/seeded"
M = json.load(open(os.path.join(S, "KILL_MATRIX.json"))) if os.path.exists(os.path.join(S, "KILL_MATRIX.json")) else {}
print("| change | breaks | what it does / what it needs | caught by |")
print("|---|---|---|---|")
for n in sorted(os.listdir(S)):
    d = os.path.join(S, n)
    if not os.path.isdir(d):
        continue
    meta = json.load(open(os.path.join(d, "meta.json")))
    note = ""
    np_ = os.path.join(d, "note.md")
    if os.path.exists(np_):
        txt = open(np_).read()
        # first paragraph-ish sentence
        txt = re.sub(r"^#.*$", "", txt, flags=re.M).strip()
        note = " ".join(txt.split())[:260]
    res = M.get(n, {})
    caught = sorted(k for k, v in res.items() if isinstance(v, dict) and v.get("exit") == 1)
    ran = sorted(k for k, v in res.items() if isinstance(v, dict))
    missed = [k for k in ran if k not in caught]
    prim = meta["breaks_property"]
    c = ", ".join(("**%s**" % k) if k == prim else k for k in caught) or "--"
    if prim in missed:
        c += " (primary check %s: MISSED)" % prim
    print("| `%s` | %s | %s | %s |" % (n, prim, note.replace("|", "\\|"), c))

#!/venv/bin/python
"""Fill 'needs_to_manifest' of seeded/*/meta.json from the author's note.md (the section that says what the change needs)."""
import json, os, re
S = "/verif/seeded"
n = 0
for d in sorted(os.listdir(S)):
    mp, np_ = os.path.join(S, d, "meta.json"), os.path.join(S, d, "note.md")
    if not os.path.exists(mp) or not os.path.exists(np_):
        continue
    meta = json.load(open(mp))
    txt = open(np_).read()
    m = re.search(r"(?im)^#+[^\n]*(needs|manifest|trigger)[^\n]*\n(.*?)(?=^#+ |\Z)", txt, re.S)
    if m:
        need = " ".join(m.group(2).split())
    else:
        sents = [s for s in re.split(r"(?<=[.!?])\s+", " ".join(txt.split())) if re.search(r"(?i)need|only|requires|manifest|trigger", s)]
        need = " ".join(sents[:3]) if sents else " ".join(txt.split())[:400]
    meta["needs_to_manifest"] = need[:900]
    json.dump(meta, open(mp, "w"), indent=1)
    n += 1
print("updated", n)

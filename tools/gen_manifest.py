#!/venv/bin/python
"""Regenerates MANIFEST.json from bbv/manifest_data.py (single source of truth)."""
import json, os, sys
sys.path.insert(0, os.path.dirname(os.path.dirname(os.path.abspath(__file__))))
from bbv import manifest_data as M
checks = []
for pid, d in sorted(M.CHECKS.items()):
    checks.append({
        "property_id": pid,
        "quick_cmd": "./check %s quick" % pid,
        "thorough_cmd": "./check %s thorough" % pid,
        "evidence_file": "/verif/evidence/%s.json" % pid,
        "replay_cmd_template": "./check --replay {path}",
        "engine": "bbv",
        "level_claimed": {"category": d.get("category", "exploration"), "text": d["text"], "design_ref": d["design_ref"]},
        "level_note": d["note"],
        "technique": d["technique"],
    })
man = {
    "version": 1,
    "setup_cmd": "./setup.sh",
    "hooks": {
        "guard": "BLACKBIRD_VERIF",
        "enable": "no source hooks are needed; checks import the package from /repo/blackbird_python (PYTHONPATH) with BLACKBIRD_VERIF=1 set for uniformity",
        "baseline_off_cmd": "cd /repo && /venv/bin/python -m pytest -ra -q -p no:cacheprovider --timeout=900 --continue-on-collection-errors",
        "source_commits": [],
        "add_only": True,
    },
    "engines": [{"name": "bbv", "path": "/verif/bbv", "serves_properties": sorted(M.CHECKS),
                 "kind_free_text": "Hypothesis-driven generated-input search (typed script model, reference semantics, grammar-derived reference recogniser, stateful machines, subprocess configuration differential) with root-cause bucketing and replay files"}],
    "checks": checks,
    "notes": M.NOTES,
    "not_applicable": M.NOT_APPLICABLE,
}
json.dump(man, open(os.path.join(os.path.dirname(os.path.dirname(os.path.abspath(__file__))), "MANIFEST.json"), "w"), indent=1)
print("wrote MANIFEST.json with %d checks, %d not_applicable" % (len(checks), len(M.NOT_APPLICABLE)))

#!/venv/bin/python
"""Replaces the kill-matrix table in DESIGN.md section 10 by the current output of tools/design_matrix.py."""
import re, subprocess
p = "/verif/DESIGN.md"
s = open(p).read()
tbl = subprocess.run(["/verif/tools/design_matrix.py"], capture_output=True, text=True).stdout.strip()
begin, end = "<!-- KILL-MATRIX-BEGIN -->", "<!-- KILL-MATRIX-END -->"
block = begin + "\n" + tbl + "\n" + end
if "KILL-MATRIX-TABLE" in s:
    s = s.replace("KILL-MATRIX-TABLE", block, 1)
else:
    s = re.sub(re.escape(begin) + r".*?" + re.escape(end), lambda m: block, s, flags=re.S)
open(p, "w").write(s)
print("table rows:", tbl.count("\n") - 1)

#!/venv/bin/python
"""Run checks against every seeded change in scratch worktrees (never touching /repo) and record which checks catch which.

usage: tools/kill_matrix.py [--all | --primary] [--only NAME[,NAME]] [--jobs N] [--tier quick]
Writes /verif/seeded/KILL_MATRIX.json and updates meta.json 'caught_by' of each seeded change.
"""
import json, os, shutil, subprocess, sys, tempfile, time
from concurrent.futures import ThreadPoolExecutor

IDS = ["C%02d" % i for i in range(1, 20)]
SEEDED = "/verif/seeded"
VERIF_DIR = os.environ.get("BBV_VERIF_SNAPSHOT", "/verif")    # a snapshot (git worktree) keeps a long matrix run consistent

def sh(cmd, **kw):
    return subprocess.run(cmd, capture_output=True, text=True, **kw)

def run_mutant(name, ids, tier):
    d = os.path.join(SEEDED, name)
    wt = tempfile.mkdtemp(prefix="bbv-km-wt-"); os.rmdir(wt)
    out = tempfile.mkdtemp(prefix="bbv-km-out-")
    res = {}
    try:
        r = sh(["git", "-C", "/repo", "worktree", "add", "-q", "--detach", wt, "HEAD"])
        if r.returncode:
            return name, {"error": r.stderr}
        a = sh(["git", "-C", wt, "apply", os.path.join(d, "patch.diff")])
        if a.returncode:
            return name, {"error": "patch does not apply: " + a.stderr}
        for i in ids:
            env = dict(os.environ, BBV_REPO=wt, BBV_OUT=out, VERIF_SEED=os.environ.get("VERIF_SEED", "1"))
            t = time.time()
            p = sh([os.path.join(VERIF_DIR, "check"), i, tier], env=env)
            first = next((l for l in p.stdout.splitlines() if l.strip().startswith("bucket:")), "")
            res[i] = {"exit": p.returncode, "wall": round(time.time() - t, 1), "bucket": first.strip()[8:200]}
    finally:
        sh(["git", "-C", "/repo", "worktree", "remove", "--force", wt])
        shutil.rmtree(wt, ignore_errors=True); shutil.rmtree(out, ignore_errors=True)
    return name, res

def main():
    a = sys.argv[1:]
    mode = "--primary"
    only = None; jobs = 4; tier = "quick"
    i = 0
    while i < len(a):
        if a[i] in ("--all", "--primary", "--related"): mode = a[i]
        elif a[i] == "--only": only = a[i + 1].split(","); i += 1
        elif a[i] == "--jobs": jobs = int(a[i + 1]); i += 1
        elif a[i] == "--tier": tier = a[i + 1]; i += 1
        i += 1
    names = sorted(n for n in os.listdir(SEEDED) if os.path.isdir(os.path.join(SEEDED, n)))
    if only: names = [n for n in names if n in only]
    path = os.path.join(SEEDED, "KILL_MATRIX.json")
    matrix = json.load(open(path)) if os.path.exists(path) else {}
    GROUPS = [{"C01", "C09", "C15", "C13"}, {"C02", "C03", "C05", "C06"}, {"C04", "C07", "C19", "C17"}, {"C08", "C16", "C19"},
              {"C10", "C14", "C18"}, {"C11", "C12", "C06"}, {"C12", "C07", "C13"}]

    def ids_for(n):
        meta = json.load(open(os.path.join(SEEDED, n, "meta.json")))
        prim = meta["breaks_property"]
        if mode == "--all":
            return IDS
        if mode == "--related":
            rel = {prim}
            for g in GROUPS:
                if prim in g:
                    rel |= g
            return sorted(rel)
        return [prim]
    with ThreadPoolExecutor(jobs) as ex:
        for name, res in ex.map(lambda n: run_mutant(n, ids_for(n), tier), names):
            matrix.setdefault(name, {}).update(res)
            caught = sorted(k for k, v in matrix[name].items() if isinstance(v, dict) and v.get("exit") == 1)
            errs = sorted(k for k, v in matrix[name].items() if isinstance(v, dict) and v.get("exit") not in (0, 1))
            print(name, "caught by", caught, ("HARNESS-ERRORS " + str(errs)) if errs else "", flush=True)
            mp = os.path.join(SEEDED, name, "meta.json")
            meta = json.load(open(mp)); meta["caught_by"] = caught
            meta["what_was_run"] = "./check <ID> %s with BBV_REPO=<scratch worktree with patch.diff applied> (tools/kill_matrix.py); exit 1 + VIOLATION line = caught" % tier
            json.dump(meta, open(mp, "w"), indent=1)
            json.dump(matrix, open(path, "w"), indent=1, sort_keys=True)

main()

#!/venv/bin/python
"""Make every seeded patch apply cleanly to the current /repo head (rebasing with a 3-way merge where later fix commits moved
the context); keeps the first version as patch.original.diff.  Reports patches that need manual work."""
import os, shutil, subprocess, sys, tempfile
S = "/verif/seeded"
def sh(c, **k): return subprocess.run(c, capture_output=True, text=True, **k)
bad = []
for n in sorted(os.listdir(S)):
    d = os.path.join(S, n)
    if not os.path.isdir(d): continue
    wt = tempfile.mkdtemp(prefix="bbv-rf-"); os.rmdir(wt)
    sh(["git", "-C", "/repo", "worktree", "add", "-q", "--detach", wt, "HEAD"])
    try:
        p = os.path.join(d, "patch.diff")
        if sh(["git", "-C", wt, "apply", "--check", p]).returncode == 0:
            continue
        r = sh(["git", "-C", wt, "apply", "--3way", p])
        if r.returncode or sh(["git", "-C", wt, "diff", "--name-only", "--diff-filter=U"]).stdout.strip():
            bad.append(n); continue
        sh(["git", "-C", wt, "reset", "-q"])
        diff = sh(["git", "-C", wt, "diff"]).stdout
        if not os.path.exists(os.path.join(d, "patch.original.diff")):
            shutil.copy(p, os.path.join(d, "patch.original.diff"))
        open(p, "w").write(diff)
        print("rebased", n)
    finally:
        sh(["git", "-C", "/repo", "worktree", "remove", "--force", wt]); shutil.rmtree(wt, ignore_errors=True)
print("need manual rebase:", bad)

#!/venv/bin/python
"""Run the repository's pinned test suite and compare with /root/.vp/BASELINE.json stable_pass.

usage: tools/repo_tests.py [repo_dir]   (exit 0 iff every stable-pass test passes)
"""
import json, os, subprocess, sys, tempfile, xml.etree.ElementTree as ET

def main():
    repo = sys.argv[1] if len(sys.argv) > 1 else "/repo"
    base = json.load(open("/root/.vp/BASELINE.json"))
    fd, path = tempfile.mkstemp(suffix=".xml"); os.close(fd)
    env = dict(os.environ)
    env.pop("BLACKBIRD_VERIF", None)
    if repo != "/repo":
        env["PYTHONPATH"] = os.path.join(repo, "blackbird_python")
    try:
        subprocess.run(["/venv/bin/python", "-m", "pytest", "-q", "-p", "no:cacheprovider", "--timeout=900",
                        "--continue-on-collection-errors", "--junitxml=" + path],
                       cwd=repo, env=env, stdout=subprocess.DEVNULL, stderr=subprocess.DEVNULL)
        passed, failed = set(), set()
        for tc in ET.parse(path).getroot().iter("testcase"):
            tid = (tc.get("classname") or "") + "::" + (tc.get("name") or "")
            if tc.find("failure") is not None or tc.find("error") is not None:
                failed.add(tid)
            elif tc.find("skipped") is None:
                passed.add(tid)
    finally:
        os.unlink(path)
    missing = sorted(set(base["stable_pass"]) - passed)
    print("passed=%d failed=%d stable_pass=%d missing=%d" % (len(passed), len(failed), len(base["stable_pass"]), len(missing)))
    for m in missing[:20]:
        print("  MISSING", m)
    sys.exit(1 if missing else 0)

main()

#!/bin/bash
# usage: tools/run_all.sh [quick|thorough] [seed]  -- runs every registered check sequentially, prints a summary
tier=${1:-quick}; seed=${2:-1}
cd "$(dirname "$0")/.."
for id in C01 C02 C03 C04 C05 C06 C07 C08 C09 C10 C11 C12 C13 C14 C15 C16 C17 C18 C19; do
  s=$(date +%s)
  out=$(VERIF_SEED=$seed ./check $id $tier 2>&1); rc=$?
  e=$(date +%s)
  echo "$id rc=$rc $((e-s))s $(echo "$out" | tail -1)"
  if [ $rc -ne 0 ]; then echo "$out" | head -30; fi
done

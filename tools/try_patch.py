#!/venv/bin/python
"""Run checks against a patched SCRATCH worktree of /repo (never touches /repo itself).

usage: tools/try_patch.py [-R] <patch.diff> <ID>[,<ID>...] [quick|thorough] [K=V ...]
"""
import os, shutil, subprocess, sys, tempfile

def sh(cmd, **kw):
    return subprocess.run(cmd, capture_output=True, text=True, **kw)

def main():
    a = sys.argv[1:]
    rev = False
    if a[0] == "-R":
        rev = True; a = a[1:]
    patch, ids = os.path.abspath(a[0]), a[1].split(",")
    tier = a[2] if len(a) > 2 and "=" not in a[2] else "quick"
    env = dict(os.environ)
    for kv in a[2:]:
        if "=" in kv:
            k, v = kv.split("=", 1); env[k] = v
    wt = tempfile.mkdtemp(prefix="bbv-try-wt-"); os.rmdir(wt)
    out = tempfile.mkdtemp(prefix="bbv-try-out-")
    r = sh(["git", "-C", "/repo", "worktree", "add", "-q", "--detach", wt, "HEAD"])
    if r.returncode:
        print(r.stderr); return 2
    rc = {}
    try:
        cmd = ["git", "-C", wt, "apply"] + (["-R"] if rev else []) + [patch]
        r = sh(cmd)
        if r.returncode:
            cmd.insert(4, "--3way")
            r = sh(cmd)
            if r.returncode:
                print("patch does not apply:", r.stderr); return 2
            sh(["git", "-C", wt, "reset", "-q"])
            print("(applied with --3way)")
        env.update(BBV_REPO=wt, BBV_OUT=out)
        for i in ids:
            p = sh(["/verif/check", i, tier], env=env)
            rc[i] = p.returncode
            lines = p.stdout.strip().splitlines()
            print("== %s exit=%d" % (i, p.returncode))
            show = lines if len(lines) <= 16 else lines[:12] + ["..."] + lines[-3:]
            for l in show:
                print("   " + l[:300])
            if p.stderr.strip():
                print("   stderr:", p.stderr.strip()[-500:])
    finally:
        sh(["git", "-C", "/repo", "worktree", "remove", "--force", wt])
        shutil.rmtree(wt, ignore_errors=True); shutil.rmtree(out, ignore_errors=True)
    print("RESULT", patch, rc)
    return 0

sys.exit(main())

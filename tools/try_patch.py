#!/venv/bin/python
"""Apply a patch to /repo, run checks, and always restore /repo.

usage: tools/try_patch.py [-R] <patch.diff> <ID>[,<ID>...] [quick|thorough] [extra env K=V ...]
"""
import os, subprocess, sys

def main():
    a = sys.argv[1:]
    rev = False
    if a[0] == "-R":
        rev = True; a = a[1:]
    patch, ids = a[0], a[1].split(",")
    tier = a[2] if len(a) > 2 and "=" not in a[2] else "quick"
    env = dict(os.environ)
    for kv in a[2:]:
        if "=" in kv:
            k, v = kv.split("=", 1); env[k] = v
    st = subprocess.run(["git", "-C", "/repo", "status", "--porcelain"], capture_output=True, text=True).stdout.strip()
    if st:
        print("refusing: /repo is dirty:\n" + st); return 2
    cmd = ["git", "-C", "/repo", "apply"] + (["-R"] if rev else []) + [os.path.abspath(patch)]
    r = subprocess.run(cmd, capture_output=True, text=True)
    if r.returncode:
        cmd.insert(4, "--3way")
        r = subprocess.run(cmd, capture_output=True, text=True)
        if r.returncode:
            subprocess.run(["git", "-C", "/repo", "reset", "-q", "--hard"])
            print("patch does not apply:", r.stderr); return 2
        subprocess.run(["git", "-C", "/repo", "reset", "-q"])
        print("(applied with --3way)")
    rc = {}
    try:
        for i in ids:
            p = subprocess.run(["/verif/check", i, tier], env=env, capture_output=True, text=True)
            rc[i] = p.returncode
            out = p.stdout.strip().splitlines()
            print("== %s exit=%d" % (i, p.returncode))
            for l in out[:12] + (["..."] if len(out) > 16 else []) + out[-4:] if len(out) > 16 else out:
                print("   " + l[:300])
            if p.stderr.strip():
                print("   stderr:", p.stderr.strip()[-500:])
    finally:
        subprocess.run(["git", "-C", "/repo", "reset", "-q", "--hard"])
        subprocess.run(["git", "-C", "/repo", "clean", "-fdq"])
    print("RESULT", patch, rc)
    return 0

sys.exit(main())
